#!/venv/bin/python
"""Build pypr/pysph from /repo's *working tree*, out of tree, in one of three
flavours (plain / asan / tsan) and describe the environment a harness process
needs to import exactly that build.  See DESIGN.md section 3.1.

Usage:  tools/vbuild.py <flavour> [--print-env]
Library: build(flavour) -> dict(env=..., tree=..., deps=..., home=..., log=...)
"""
import fcntl
import hashlib
import json
import os
import shutil
import subprocess
import sys
import time

VERIF = os.path.dirname(os.path.dirname(os.path.abspath(__file__)))
REPO = os.environ.get('VERIF_REPO', '/repo')
WORK = os.environ.get('VERIF_WORK', '/var/tmp/pysph-verif')
PY = '/venv/bin/python'
SITE = '/venv/lib/python3.12/site-packages'
LIBASAN = '/usr/lib/x86_64-linux-gnu/libasan.so.8'
LIBTSAN = '/usr/lib/x86_64-linux-gnu/libtsan.so.2'

FLAGS = {
    'plain': '',
    'asan': ('-fsanitize=address,undefined -fsanitize-recover=address '
             '-fno-omit-frame-pointer -O1 -g'),
    'tsan': '-fsanitize=thread -fno-omit-frame-pointer -O1 -g',
}

RSYNC_EXCLUDES = ['.git', '/build', '*.so', '*.cpp', '*.c', '*.o',
                  '__pycache__', '*.pyc', '/docs', '/docker', '/starcluster',
                  '*.egg-info', '.pytest_cache', '*_output']


class BuildError(Exception):
    pass


def _run(cmd, **kw):
    return subprocess.run(cmd, stdout=subprocess.PIPE,
                          stderr=subprocess.STDOUT, text=True, **kw)


def _hash_files(root, exts):
    h = hashlib.sha1()
    for d, dirs, files in os.walk(root):
        dirs[:] = sorted(x for x in dirs if x not in ('build', '.git',
                                                      '__pycache__'))
        for f in sorted(files):
            if f.endswith(exts):
                p = os.path.join(d, f)
                h.update(os.path.relpath(p, root).encode())
                with open(p, 'rb') as fp:
                    h.update(fp.read())
    return h.hexdigest()[:12]


def _wrappers(fdir):
    """CC/CXX wrappers that drop LD_PRELOAD for the compiler itself."""
    for name, real in (('cc', 'gcc'), ('cxx', 'g++')):
        p = os.path.join(fdir, name)
        if not os.path.exists(p):
            with open(p, 'w') as fp:
                fp.write('#!/bin/sh\nexec env -u LD_PRELOAD %s "$@"\n' % real)
            os.chmod(p, 0o755)
    return os.path.join(fdir, 'cc'), os.path.join(fdir, 'cxx')


def _build_env(flavour, fdir):
    env = dict(os.environ)
    for k in ('LD_PRELOAD', 'PYTHONPATH', 'ASAN_OPTIONS', 'TSAN_OPTIONS',
              'UBSAN_OPTIONS'):
        env.pop(k, None)
    fl = FLAGS[flavour]
    cc, cxx = _wrappers(fdir)
    env['CC'] = cc
    env['CXX'] = cxx
    if fl:
        env['CFLAGS'] = fl
        env['CXXFLAGS'] = fl
        env['LDFLAGS'] = fl.split(' -fno-omit')[0].split(' -fsanitize-rec')[0]
    else:
        for k in ('CFLAGS', 'CXXFLAGS', 'LDFLAGS'):
            env.pop(k, None)
    env['PIP_NO_INDEX'] = '1'
    env['PYTHONHASHSEED'] = '0'
    return env


def _build_cyarray(flavour, fdir, env, log):
    deps = os.path.join(fdir, 'deps')
    if flavour == 'plain':
        os.makedirs(deps, exist_ok=True)
        return deps
    so = [f for f in (os.listdir(os.path.join(deps, 'cyarray'))
                      if os.path.isdir(os.path.join(deps, 'cyarray')) else [])
          if f.startswith('carray') and f.endswith('.so')]
    if so:
        return deps
    src = os.path.join(SITE, 'cyarray')
    dst = os.path.join(deps, 'cyarray')
    if os.path.isdir(dst):
        shutil.rmtree(dst)
    shutil.copytree(src, dst, ignore=shutil.ignore_patterns(
        '*.so', '__pycache__', '*.cpp', '*.c', 'tests'))
    setup = os.path.join(deps, 'setup_cyarray.py')
    with open(setup, 'w') as fp:
        fp.write(
            "from setuptools import setup, Extension\n"
            "from Cython.Build import cythonize\n"
            "import numpy\n"
            "setup(name='cyarray_inst', ext_modules=cythonize([Extension("
            "'cyarray.carray', ['cyarray/carray.pyx'], include_dirs=["
            "numpy.get_include()], language='c++')], language_level=3), "
            "script_args=['build_ext', '--inplace'])\n")
    r = _run([PY, setup], cwd=deps, env=env)
    log.write(r.stdout)
    if r.returncode != 0:
        raise BuildError('instrumented cyarray build failed:\n' +
                         r.stdout[-3000:])
    return deps


def _build_shim(fdir, log):
    so = os.path.join(fdir, 'gomp_tsan_shim.so')
    src = os.path.join(VERIF, 'tools', 'gomp_tsan_shim.c')
    if (not os.path.exists(so) or
            os.path.getmtime(so) < os.path.getmtime(src)):
        r = _run(['gcc', '-shared', '-fPIC', '-O1', '-o', so, src, '-ldl'])
        log.write(r.stdout)
        if r.returncode != 0:
            raise BuildError('tsan shim build failed:\n' + r.stdout)
    return so


def _instrumented(so, flavour):
    if flavour == 'plain':
        return True
    pat = '__asan_' if flavour == 'asan' else '__tsan_'
    r = _run(['nm', '-D', so])
    return pat in r.stdout


def build(flavour='plain', verbose=False):
    """Synchronise /repo's working tree into the flavour's build directory,
    (re)build what changed, and return the run-time description."""
    assert flavour in FLAGS, flavour
    t0 = time.time()
    fdir = os.path.join(WORK, flavour)
    tree = os.path.join(fdir, 'tree')
    os.makedirs(tree, exist_ok=True)
    lockf = open(os.path.join(fdir, '.lock'), 'w')
    fcntl.flock(lockf, fcntl.LOCK_EX)
    try:
        logp = os.path.join(fdir, 'build.log')
        with open(logp, 'a') as log:
            log.write('\n==== build %s at %s ====\n' % (flavour, time.ctime()))
            cmd = ['rsync', '-a', '--checksum', '--delete', '--itemize-changes']
            for e in RSYNC_EXCLUDES:
                cmd += ['--exclude', e]
            cmd += [REPO.rstrip('/') + '/', tree + '/']
            r = _run(cmd)
            log.write(r.stdout)
            if r.returncode != 0:
                raise BuildError('rsync failed: ' + r.stdout[-2000:])
            changed = []
            for line in r.stdout.splitlines():
                if line[:2] in ('>f', 'cf') and ' ' in line:
                    changed.append(line.split(' ', 1)[1].strip())
            now = time.time()
            for c in changed:
                p = os.path.join(tree, c)
                if os.path.isfile(p):
                    os.utime(p, (now, now))
            native_changed = [c for c in changed if c.endswith(
                ('.pyx', '.pxd', '.h', '.hpp', '.mako', 'setup.py', '.pxi'))]
            env = _build_env(flavour, fdir)
            deps = _build_cyarray(flavour, fdir, env, log)
            env['PYTHONPATH'] = deps
            stamp = os.path.join(fdir, 'built.stamp')
            src_hash = _hash_files(tree, ('.pyx', '.pxd', '.h', '.hpp',
                                          '.mako', 'setup.py', '.pxi'))
            old = open(stamp).read().strip() if os.path.exists(stamp) else ''
            need = old != src_hash + ':' + FLAGS[flavour]
            rebuilt = False
            if need:
                if os.path.exists(stamp):
                    os.remove(stamp)
                # HOME for setup.py's own omp probe (pyximport cache)
                env['HOME'] = os.path.join(fdir, 'build-home')
                os.makedirs(env['HOME'], exist_ok=True)
                r = _run([PY, 'setup.py', 'build_ext', '--inplace', '-j16'],
                         cwd=tree, env=env)
                log.write(r.stdout)
                if r.returncode != 0:
                    raise BuildError(
                        'setup.py build_ext failed (flavour %s); tail:\n%s'
                        % (flavour, r.stdout[-4000:]))
                with open(stamp, 'w') as fp:
                    fp.write(src_hash + ':' + FLAGS[flavour])
                rebuilt = True
            # instrumentation self check
            base = os.path.join(tree, 'pysph', 'base')
            sos = [f for f in os.listdir(base) if f.startswith('nnps_base')
                   and f.endswith('.so')]
            if not sos:
                raise BuildError('no nnps_base extension after build')
            if not _instrumented(os.path.join(base, sos[0]), flavour):
                raise BuildError('%s: nnps_base is not instrumented' % flavour)
            if flavour != 'plain':
                cso = [f for f in os.listdir(os.path.join(deps, 'cyarray'))
                       if f.startswith('carray') and f.endswith('.so')]
                if not cso or not _instrumented(
                        os.path.join(deps, 'cyarray', cso[0]), flavour):
                    raise BuildError('%s: cyarray is not instrumented'
                                     % flavour)
            shim = _build_shim(fdir, log) if flavour == 'tsan' else None
            abi = _hash_files(os.path.join(tree, 'pysph', 'base'),
                              ('.pyx', '.pxd', '.h', '.hpp', '.mako'))
            home = os.path.join(fdir, 'home-' + abi)
            os.makedirs(home, exist_ok=True)
            # prune old module caches (disk)
            homes = sorted((d for d in os.listdir(fdir)
                            if d.startswith('home-') and d != 'home-' + abi),
                           key=lambda d: os.path.getmtime(
                               os.path.join(fdir, d)))
            for d in homes[:-1]:
                shutil.rmtree(os.path.join(fdir, d), ignore_errors=True)
    finally:
        fcntl.flock(lockf, fcntl.LOCK_UN)
        lockf.close()

    renv = {}
    renv['PYTHONPATH'] = os.pathsep.join([tree, deps, VERIF])
    renv['HOME'] = home
    renv['PYTHONHASHSEED'] = '0'
    renv['PIP_NO_INDEX'] = '1'
    renv['VERIF_FLAVOUR'] = flavour
    renv['VERIF_TREE'] = tree
    renv['VERIF_DEPS'] = deps
    renv['MPLBACKEND'] = 'Agg'
    cc, cxx = _wrappers(fdir)
    renv['CC'] = cc
    renv['CXX'] = cxx
    fl = FLAGS[flavour]
    if fl:
        renv['CFLAGS'] = fl
        renv['CXXFLAGS'] = fl
        renv['LDFLAGS'] = fl.split(' -fno-omit')[0].split(' -fsanitize-rec')[0]
    if flavour == 'asan':
        renv['LD_PRELOAD'] = LIBASAN
    elif flavour == 'tsan':
        renv['LD_PRELOAD'] = LIBTSAN + ':' + shim
    return dict(env=renv, tree=tree, deps=deps, home=home, flavour=flavour,
                rebuilt=rebuilt, changed=changed,
                native_changed=native_changed, build_s=time.time() - t0)


def full_env(info, extra=None):
    """os.environ + the flavour's run-time environment (+ extra)."""
    env = dict(os.environ)
    for k in ('LD_PRELOAD', 'PYTHONPATH', 'CFLAGS', 'CXXFLAGS', 'LDFLAGS',
              'ASAN_OPTIONS', 'TSAN_OPTIONS', 'UBSAN_OPTIONS'):
        env.pop(k, None)
    env.update(info['env'])
    if extra:
        env.update(extra)
    return env


if __name__ == '__main__':
    fl = sys.argv[1] if len(sys.argv) > 1 else 'plain'
    try:
        info = build(fl)
    except BuildError as e:
        print('BUILD FAILED:', e)
        sys.exit(2)
    if '--print-env' in sys.argv:
        print(json.dumps(info['env'], indent=1))
    else:
        print('built %s in %.1fs rebuilt=%s tree=%s' % (
            fl, info['build_s'], info['rebuilt'], info['tree']))
