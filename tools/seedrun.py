#!/usr/bin/env python3
"""Run checks against a seeded change: apply /verif/seeded/<name>/patch.diff
to /repo, run the quick (or given) tier of the listed checks, undo the change
(git -C /repo checkout -- .), record the outcome in meta.json.
usage: seedrun.py <name> [--tier quick] [--seed N] CHECK [CHECK...]"""
import json
import os
import re
import subprocess
import sys

args = sys.argv[1:]
name = args.pop(0)
tier = 'quick'
seed = '1'
while args and args[0].startswith('--'):
    k = args.pop(0)
    if k == '--tier':
        tier = args.pop(0)
    elif k == '--seed':
        seed = args.pop(0)
checks = args
d = os.path.join('/verif/seeded', name)
meta = json.load(open(os.path.join(d, 'meta.json')))
st = subprocess.run(['git', '-C', '/repo', 'status', '--porcelain',
                     '--untracked-files=no'], capture_output=True, text=True)
if st.stdout.strip():
    sys.exit('refusing: /repo has uncommitted changes:\n' + st.stdout)
subprocess.check_call(['git', '-C', '/repo', 'apply',
                       os.path.join(d, 'patch.diff')])
res = meta.get('runs') or {}
try:
    for c in checks:
        env = dict(os.environ, VERIF_SEED=seed)
        p = subprocess.run(['/verif/vcheck', c, '--tier', tier], cwd='/verif',
                           env=env, capture_output=True, text=True)
        out = p.stdout + p.stderr
        viol = re.findall(r'^VIOLATION .*$', out, re.M)
        mech = re.findall(r'^\s+mechanism: (.*)$', out, re.M)
        what = re.findall(r'^\s+what: (.*)$', out, re.M)
        res['%s/%s/seed%s' % (c, tier, seed)] = dict(
            exit=p.returncode, violations=len(viol),
            mechanisms=sorted(set(mech))[:6],
            first=(what[0][:300] if what else None))
        print(c, tier, 'exit', p.returncode, len(viol), 'VIOLATION lines',
              sorted(set(mech))[:4])
        if what:
            print('   ', what[0][:300])
finally:
    subprocess.check_call(['git', '-C', '/repo', 'checkout', '--', '.'])
meta['runs'] = res
caught = sorted({k.split('/')[0] for k, v in res.items() if v['exit'] == 1})
meta['caught_by'] = caught
json.dump(meta, open(os.path.join(d, 'meta.json'), 'w'), indent=1)
print('caught_by', caught)
