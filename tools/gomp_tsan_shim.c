/* LD_PRELOAD interposer: tells ThreadSanitizer about the happens-before edges
 * that libgomp creates with raw futexes (fork, join, barriers, dynamic-loop
 * end), which TSan cannot see because libgomp is not instrumented.
 * Prototype used to measure the false-positive level. */
#define _GNU_SOURCE
#include <dlfcn.h>
#include <stdbool.h>
#include <stddef.h>

extern void __tsan_acquire(void *addr) __attribute__((weak));
extern void __tsan_release(void *addr) __attribute__((weak));

static char fork_tok, join_tok, barrier_tok;
static void *gomp(void) { static void *h; if (!h) h = dlopen("libgomp.so.1", RTLD_NOW | RTLD_GLOBAL); return h; }

#define REAL(name) \
    static __typeof__(name) *real = NULL; \
    if (!real) real = (__typeof__(name) *)dlsym(gomp(), #name)

static inline void rel(void *p) { if (__tsan_release) __tsan_release(p); }
static inline void acq(void *p) { if (__tsan_acquire) __tsan_acquire(p); }

struct tramp { void (*fn)(void *); void *data; };

static void tramp_fn(void *arg)
{
    struct tramp *t = (struct tramp *)arg;
    acq(&fork_tok);
    t->fn(t->data);
    rel(&join_tok);
}

void GOMP_parallel(void (*fn)(void *), void *data, unsigned num_threads,
                   unsigned flags)
{
    REAL(GOMP_parallel);
    struct tramp t = { fn, data };
    rel(&fork_tok);
    real(tramp_fn, &t, num_threads, flags);
    acq(&join_tok);
}

void GOMP_barrier(void)
{
    REAL(GOMP_barrier);
    rel(&barrier_tok);
    real();
    acq(&barrier_tok);
}

void GOMP_loop_end(void)
{
    REAL(GOMP_loop_end);
    rel(&barrier_tok);
    real();
    acq(&barrier_tok);
}
