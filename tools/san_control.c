/* Positive control for the sanitizer flavours: a shared object with a known
 * heap overflow (ASan), a known signed overflow (UBSan) and a known data race
 * (TSan), loaded through ctypes by the same interpreter, with the same
 * preloaded runtime and options, as the real workloads. */
#include <stdlib.h>
#include <pthread.h>
#include <limits.h>

int control_overflow(int n)
{
    volatile int *p = (int *)malloc(sizeof(int) * 4);
    int v;
    p[0] = 1; p[1] = 2; p[2] = 3; p[3] = 4;
    v = p[n];              /* n == 4: one past the end */
    free((void *)p);
    return v;
}

int control_ub(int x)
{
    return x + INT_MAX;    /* signed overflow for x > 0 */
}

static int shared;
static void *racer(void *arg)
{
    int i;
    for (i = 0; i < 100000; i++)
        shared += 1;
    return arg;
}

int control_race(void)
{
    pthread_t a, b;
    pthread_create(&a, NULL, racer, NULL);
    pthread_create(&b, NULL, racer, NULL);
    pthread_join(a, NULL);
    pthread_join(b, NULL);
    return shared;
}
