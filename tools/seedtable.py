#!/usr/bin/env python3
"""Markdown table of the seeded changes and which checks caught them."""
import glob
import json
print('| change | property | what was changed | needs | caught by (quick tier, '
      'exit 1) | mechanism keys reported |')
print('|---|---|---|---|---|---|')
for m in sorted(glob.glob('/verif/seeded/*/meta.json')):
    d = json.load(open(m))
    mech = []
    for k, v in sorted((d.get('runs') or {}).items()):
        if v['exit'] == 1:
            mech += ['%s: %s' % (k.split('/')[0], x) for x in v['mechanisms'][:2]]
    missed = [k.split('/')[0] for k, v in sorted((d.get('runs') or {}).items())
              if v['exit'] != 1]
    cb = ', '.join(d.get('caught_by') or []) or 'NOT CAUGHT'
    if missed:
        cb += ' (also run, silent: %s)' % ', '.join(missed)
    print('| %s | %s | %s | %s | %s | %s |' % (
        d['name'], d['property'], d['summary'].replace('|', '/'),
        d['trigger'].replace('|', '/'), cb, '; '.join(mech).replace('|', '/')))
