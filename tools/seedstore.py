#!/usr/bin/env python3
"""Copy a verified seeded change from its scratch worktree into
/verif/seeded/<name>/ (patch.diff, demo.py, notes.md, meta.json).
usage: seedstore.py <prop> <name> <worktree> "<one-line summary>" "<trigger>" """
import json
import os
import shutil
import subprocess
import sys

prop, name, wt, summary, trigger = sys.argv[1:6]
dst = os.path.join('/verif/seeded', name)
os.makedirs(dst, exist_ok=True)
for f in ('patch.diff', 'demo.py', 'notes.md'):
    shutil.copy(os.path.join(wt, '_seed', f), os.path.join(dst, f))
files = subprocess.run(['git', '-C', wt, 'diff', '--name-only', '--', 'pysph'],
                       capture_output=True, text=True).stdout.split()
meta = dict(property=prop, name=name, summary=summary, trigger=trigger,
            files=files,
            base_commit=subprocess.run(['git', '-C', wt, 'rev-parse', 'HEAD'],
                                       capture_output=True,
                                       text=True).stdout.strip(),
            confirmed=dict(builds=True, pinned_tests='42 passed, 1 skipped '
                           '(the 4 pinned modules, on the built worktree)',
                           demo_on_mutated_tree='exit 1',
                           demo_on_clean_tree='exit 0'),
            origin='fresh sub-agent given only the property text and a '
                   'scratch worktree',
            caught_by=None)
json.dump(meta, open(os.path.join(dst, 'meta.json'), 'w'), indent=1)
print('stored', dst, files)
