"""Triage helper (not a registered check): each NNPS class x structural
scenario in its own subprocess."""
import sys, json, subprocess, os
sys.path.insert(0, '/verif')
SCEN = ['regular1', 'regular2', 'regular3', 'empty_second', 'empty_first', 'all_empty', 'single_only',
        'single_plus_regular', 'coincident_only', 'coincident_plus_regular', 'remove_all_then_update',
        'two_particles', 'add_to_empty']
def child(cls, scen, dim, cache):
    import numpy as np
    from checks import c01
    from pysph.base.utils import get_particle_array
    rng = np.random.default_rng(5)
    def reg(n, name):
        p = np.zeros((n, 3)); p[:, :dim] = rng.uniform(0, 1, size=(n, dim))
        return get_particle_array(name=name, x=p[:,0], y=p[:,1], z=p[:,2], h=np.full(n, 0.08))
    def empty(name):
        return get_particle_array(name=name, x=np.zeros(0), h=np.zeros(0))
    def coin(n, name):
        p = np.zeros((n, 3)); p[:, :dim] = 0.3
        return get_particle_array(name=name, x=p[:,0], y=p[:,1], z=p[:,2], h=np.full(n, 0.08))
    post = None
    if scen == 'regular1': pas = [reg(60, 'a')]
    elif scen == 'regular2': pas = [reg(60, 'a'), reg(25, 'b')]
    elif scen == 'regular3': pas = [reg(60, 'a'), reg(25, 'b'), reg(7, 'c')]
    elif scen == 'empty_second': pas = [reg(60, 'a'), empty('b')]
    elif scen == 'empty_first': pas = [empty('a'), reg(60, 'b')]
    elif scen == 'all_empty': pas = [empty('a'), empty('b')]
    elif scen == 'single_only': pas = [reg(1, 'a')]
    elif scen == 'single_plus_regular': pas = [reg(1, 'a'), reg(40, 'b')]
    elif scen == 'coincident_only': pas = [coin(5, 'a')]
    elif scen == 'coincident_plus_regular': pas = [coin(5, 'a'), reg(40, 'b')]
    elif scen == 'two_particles': pas = [reg(2, 'a')]
    elif scen == 'remove_all_then_update':
        pas = [reg(60, 'a'), reg(25, 'b')]
        post = lambda: pas[1].remove_particles(np.arange(25))
    elif scen == 'add_to_empty':
        pas = [reg(60, 'a'), empty('b')]
        post = lambda: pas[1].add_particles(x=np.array([0.5, 0.52]), y=np.array([0.5,0.5])*(dim>1), h=np.array([0.08,0.08]))
    mon = c01.Mon()
    knobs = c01.knob_choices(cls)[0]
    nn = c01.construct(cls, dim, pas, 2.0, knobs, cache, False)
    if post:
        post(); nn.update_domain(); nn.update()
    snap = c01.snapshot(pas)
    orc = c01.Oracle(snap, 2.0)
    nq = c01.check_queries(nn, pas, orc, cls, 't', False, mon, dict(idx=0), knobs)
    kinds = sorted(set(v['key'].split(':')[1] for v in mon.viol))
    print('@@', json.dumps(dict(nq=nq, kinds=kinds, nviol=mon.cnt.get('violating_observations', 0))))
if __name__ == '__main__':
    if sys.argv[1] == 'child':
        child(sys.argv[2], sys.argv[3], int(sys.argv[4]), int(sys.argv[5])); sys.exit(0)
    from checks import c01
    env = dict(os.environ, PYTHONPATH='/var/tmp/pysph-verif/plain/tree:/verif', OMP_NUM_THREADS='2', OMP_WAIT_POLICY='passive')
    dims = [int(a) for a in sys.argv[1].split(',')]
    caches = [int(a) for a in sys.argv[2].split(',')]
    from concurrent.futures import ThreadPoolExecutor
    jobs = [(c, s, d, k) for d in dims for k in caches for s in SCEN for c in c01.CLASSES]
    def run(j):
        c, s, d, k = j
        try:
            r = subprocess.run(['/venv/bin/python', __file__, 'child', c, s, str(d), str(k)], env=env, capture_output=True, text=True, timeout=120,
                               preexec_fn=lambda: __import__('resource').setrlimit(__import__('resource').RLIMIT_AS, (8<<30, 8<<30)))
        except subprocess.TimeoutExpired:
            return j, 'TIMEOUT'
        out = [l for l in r.stdout.splitlines() if l.startswith('@@')]
        if r.returncode != 0:
            last = [l for l in r.stderr.splitlines() if l.strip()][-1:] or ['']
            return j, 'rc=%d %s' % (r.returncode, last[0][:120])
        d_ = json.loads(out[0][2:])
        return j, 'ok' if not d_['kinds'] else 'MISMATCH %s (%d of %d)' % (d_['kinds'], d_['nviol'], d_['nq'])
    with ThreadPoolExecutor(16) as ex:
        res = list(ex.map(run, jobs))
    for (c, s, d, k), r in res:
        if r != 'ok':
            print('dim=%d cache=%d %-24s %-26s %s' % (d, k, s, c, r))
    print('total', len(res), 'ok', sum(1 for _, r in res if r == 'ok'))
