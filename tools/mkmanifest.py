#!/venv/bin/python
"""Regenerate MANIFEST.json from the table below (keeps it schema-valid)."""
import json, os, subprocess, sys
HERE = os.path.dirname(os.path.dirname(os.path.abspath(__file__)))
sys.path.insert(0, HERE)
from checks import registry

def main():
    checks = []
    for pid, e in sorted(registry.CHECKS.items()):
        checks.append(dict(
            property_id=pid,
            quick_cmd='./vcheck %s --tier quick' % pid,
            thorough_cmd='./vcheck %s --tier thorough' % pid,
            evidence_file='evidence/%s.json' % pid,
            replay_cmd_template='./vcheck %s --replay {path}' % pid,
            engine='vcheck',
            level_claimed=dict(category=e['level'], text=e['text'],
                               design_ref='DESIGN.md section 4, %s' % pid),
            level_note=e['note'], technique=e['technique']))
    man = dict(
        version=1,
        setup_cmd='./setup.sh',
        hooks=dict(guard='PYSPH_VERIF', enable='no source hooks are needed: '
                   'all monitors attach to public callables / instance '
                   'attributes from outside; checks build /repo\'s working '
                   'tree out of tree with tools/vbuild.py',
                   baseline_off_cmd='cd /repo && /venv/bin/python -m pytest '
                   '-q -p no:cacheprovider --timeout=900 '
                   '--continue-on-collection-errors',
                   source_commits=[], add_only=True),
        engines=[dict(name='vcheck', path='vcheck',
                      serves_properties=sorted(registry.CHECKS),
                      kind_free_text='runtime monitors (reference models, '
                      'trace checkers, metamorphic oracles) and gcc '
                      'ASan/UBSan/TSan builds of the working tree, driven by '
                      'seeded workload generators')],
        checks=checks,
        notes='See DESIGN.md.  exit 2 = inconclusive (never folded into 0/1).',
        not_applicable=[dict(property_id=k, reason=v) for k, v in
                        sorted(registry.NOT_APPLICABLE.items())])
    with open(os.path.join(HERE, 'MANIFEST.json'), 'w') as fp:
        json.dump(man, fp, indent=1)
    r = subprocess.run(['python3-vt', '-c', '''
import json, jsonschema
jsonschema.validate(json.load(open("%s/MANIFEST.json")), json.load(open("/root/.vp/MANIFEST.schema.json")))
print("MANIFEST valid")''' % HERE])
    return r.returncode
if __name__ == '__main__':
    sys.exit(main())
