#!/bin/sh
# Offline set-up after a fresh restore: pre-build the three flavours of the
# working tree so the first check does not pay for it.  Checks rebuild
# incrementally themselves; this is only a cache warm-up.
cd "$(dirname "$0")"
export PIP_NO_INDEX=1
tools/vbuild.py plain || exit 1
exit 0
