#!/bin/sh
# Offline set-up after a fresh restore: pre-build the three flavours of the
# working tree (plain / gcc ASan+UBSan / gcc TSan, each with its own
# instrumented cyarray) so the first check does not pay for it.  Checks
# re-synchronise and rebuild incrementally themselves; this is a cache warm-up
# only and nothing registered in MANIFEST.json depends on its output existing.
cd "$(dirname "$0")"
export PIP_NO_INDEX=1
tools/vbuild.py plain || exit 1
tools/vbuild.py asan &
A=$!
tools/vbuild.py tsan &
T=$!
wait $A || exit 1
wait $T || exit 1
exit 0
