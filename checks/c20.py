"""C20 - incomplete problems are rejected at set-up, never compiled and run.

Fault enumeration: for every shipped equation and stepper class a complete
problem is built, then one needed name at a time is removed (explicit d_*/s_*
argument, or a property implied by a pair symbol) from the destination or
from one of two sources, or an array name is misspelt; the monitor observes
whether building the evaluator / compiler / generated code raises an error
naming the class and the missing name.  Nothing incomplete is ever compiled."""
import json

import numpy as np

from vlib import common, harness, eqcatalog as ec

PROP = 'C20'
BASE = ('x', 'y', 'z', 'h', 'tag', 'gid', 'pid')   # every array has these


def make_array(name, props):
    from pysph.base.particle_array import ParticleArray
    kw = {p: np.zeros(2) for p in sorted(set(props) | set(BASE[:4]))}
    kw['x'] = np.array([0.0, 0.1])
    kw['h'] = np.array([0.1, 0.1])
    pa = ParticleArray(name=name, **kw)
    pa.add_property('zz_extra')     # (the check wants a *strict* subset)
    return pa


def stages(arrays, equations, integrator=None):
    """Run the three set-up stages; returns (stage_reached, exception)."""
    from pysph.sph.acceleration_eval import AccelerationEval
    from pysph.sph.sph_compiler import SPHCompiler
    from pysph.base.kernels import CubicSpline
    import io
    import contextlib
    buf = io.StringIO()
    stage = 'AccelerationEval'
    try:
        with contextlib.redirect_stdout(buf):
            ae = AccelerationEval(arrays, equations, CubicSpline(dim=2))
            stage = 'SPHCompiler'
            comp = SPHCompiler(ae, integrator)
            stage = 'code-generation'
            comp._get_code()
            stage = 'completed'
    except BaseException as e:      # SystemExit from compyle included
        return stage, e
    return stage, None


def wrap(equations, mode):
    from pysph.sph.equation import Group
    if mode == 'flat':
        return equations
    if mode == 'group':
        return [Group(equations=equations)]
    return [Group(equations=[Group(equations=equations)])]


def judge(stage, exc, cls_name, missing, what):
    """-> None if properly rejected, else (key, message)."""
    if exc is None:
        return ('accepted:' + what, 'set-up completed all stages although %s'
                % missing)
    msg = str(exc)
    if not isinstance(exc, RuntimeError):
        return ('wrong-exception:' + what, '%s raised %s: %s' % (
            stage, type(exc).__name__, msg[:200]))
    names = missing if isinstance(missing, (list, tuple)) else [missing]
    if cls_name not in msg or not all(n in msg for n in names):
        return ('message-incomplete:' + what, '%s raised RuntimeError but the '
                'message does not name %s and %s: %r' % (stage, cls_name,
                                                         names, msg[:300]))
    return None


def check_equation(name, cls, mon, viol, rng):
    eq = ec.instantiate(cls, dest='dest', sources=('src', 'src2'))
    nosrc = getattr(eq, 'no_source', False) or not eq.sources
    d, s, imp = ec.needed_names(eq)
    cname = cls.__name__

    def arrays(skip=None):
        out = [make_array('dest', (d | imp) - ({skip[1]} if skip and skip[0]
                                               == 'dest' else set()))]
        if not nosrc:
            for sn in ('src', 'src2'):
                out.append(make_array(sn, (s | imp) - (
                    {skip[1]} if skip and skip[0] == sn else set())))
        return out

    def fresh():
        return ec.instantiate(cls, dest='dest', sources=('src', 'src2'))
    mode = str(rng.choice(['flat', 'group', 'subgroup']))
    stage, exc = stages(arrays(), wrap([fresh()], mode))
    if exc is not None:
        mon['baseline_not_buildable'] = mon.get('baseline_not_buildable',
                                                0) + 1
        mon.setdefault('_unbuildable', []).append('%s: %s at %s: %s' % (
            name, type(exc).__name__, stage, str(exc)[:120]))
        return 0

    def bad(key, what, case):
        key = '%s' % key
        if sum(1 for v in viol if v['key'] == key) < 3:
            viol.append(dict(key=key, what='%s: %s' % (name, what),
                             case=case))
        mon['violating_faults'] = mon.get('violating_faults', 0) + 1
    nf = 0
    faults = [('dest', n, 'explicit-dest') for n in sorted(d)
              if n not in BASE]
    if not nosrc:
        for sn in ('src', 'src2'):
            faults += [(sn, n, 'explicit-source') for n in sorted(s)
                       if n not in BASE]
        for arr in ('dest', 'src', 'src2'):
            faults += [(arr, n, 'pair-symbol') for n in sorted(imp)
                       if n not in (d if arr == 'dest' else s)]
    for arr, n, kind in faults:
        mode = str(rng.choice(['flat', 'group', 'subgroup']))
        stage, exc = stages(arrays(skip=(arr, n)), wrap([fresh()], mode))
        nf += 1
        mon['faults_' + kind] = mon.get('faults_' + kind, 0) + 1
        r = judge(stage, exc, cname, n, kind)
        if r:
            bad(r[0], 'property %r removed from array %r (%s, %s): %s' % (
                n, arr, kind, mode, r[1]),
                dict(equation=name, array=arr, name=n, kind=kind))
        else:
            mon['rejected_at_' + stage] = mon.get('rejected_at_' + stage,
                                                  0) + 1
    # misspelt array names
    for which in ('dest', 'source'):
        if which == 'source' and nosrc:
            continue
        e2 = ec.instantiate(cls, dest='dset' if which == 'dest' else 'dest',
                            sources=('src', 'scr2') if which == 'source'
                            else ('src', 'src2'))
        stage, exc = stages(arrays(), [e2])
        nf += 1
        mon['faults_misspelt'] = mon.get('faults_misspelt', 0) + 1
        wrong = 'dset' if which == 'dest' else 'scr2'
        r = judge(stage, exc, cname, wrong, 'misspelt-' + which)
        if r:
            bad(r[0], 'array name misspelt as %r: %s' % (wrong, r[1]),
                dict(equation=name, misspelt=wrong))
    nf += check_self_source(name, cls, mon, bad, rng, d, s, imp, nosrc)
    nf += check_repeated(name, cls, mon, bad, rng, d, s, imp, nosrc)
    return nf


def check_repeated(name, cls, mon, bad, rng, d, s, imp, nosrc):
    """The same equation class on the same destination twice in one
    evaluator (separate groups, one group, sub-groups of one group); the
    second occurrence has a further source, which is incomplete, or a
    misspelt one."""
    from pysph.sph.equation import Group
    if nosrc:
        return 0
    cname = cls.__name__
    only_src = [n for n in sorted(s | imp) if n not in BASE]
    if not only_src:
        return 0

    def arrays(skip=None):
        return [make_array('dest', d | imp), make_array('src', s | imp),
                make_array('src2', (s | imp) - ({skip} if skip else set()))]

    def program(shape, second_sources):
        e1 = ec.instantiate(cls, dest='dest', sources=('src',))
        e2 = ec.instantiate(cls, dest='dest', sources=second_sources)
        if shape == 'groups':
            return [Group(equations=[e1]), Group(equations=[e2])]
        if shape == 'one-group':
            return [Group(equations=[e1, e2])]
        return [Group(equations=[Group(equations=[e1]),
                                 Group(equations=[e2])])]
    shape = str(rng.choice(['groups', 'one-group', 'subgroups']))
    stage, exc = stages(arrays(), program(shape, ('src', 'src2')))
    if exc is not None:
        return 0
    nf = 0
    n = only_src[int(rng.integers(len(only_src)))]
    stage, exc = stages(arrays(skip=n), program(shape, ('src', 'src2')))
    nf += 1
    mon['faults_repeated'] = mon.get('faults_repeated', 0) + 1
    r = judge(stage, exc, cname, n, 'repeated-equation')
    if r:
        bad(r[0], 'second occurrence of the equation on %r (%s) has the '
            'further source src2, which lacks %r: %s' % ('dest', shape, n,
                                                         r[1]),
            dict(equation=name, array='src2', name=n, kind='repeated',
                 shape=shape))
    stage, exc = stages(arrays(), program(shape, ('src', 'scr2')))
    nf += 1
    mon['faults_repeated'] = mon.get('faults_repeated', 0) + 1
    r = judge(stage, exc, cname, 'scr2', 'repeated-misspelt')
    if r:
        bad(r[0], 'second occurrence of the equation (%s) names a source '
            '%r that does not exist: %s' % (shape, 'scr2', r[1]),
            dict(equation=name, misspelt='scr2', shape=shape))
    return nf


def check_self_source(name, cls, mon, bad, rng, d, s, imp, nosrc):
    """The destination is also one of the sources (fluid -> fluid, the most
    common arrangement), in either position of the source list: what the
    equation reads from it *as a source* must be checked too."""
    if nosrc:
        return 0
    cname = cls.__name__
    nf = 0
    for srcs in (('dest', 'src'), ('src', 'dest'), ('dest',)):
        only_src = [n for n in sorted(s | imp) if n not in d and
                    n not in BASE]
        if not only_src:
            continue

        def arrays(skip=None):
            out = [make_array('dest', (d | s | imp) - (
                {skip} if skip else set()))]
            if 'src' in srcs:
                out.append(make_array('src', s | imp))
            return out
        stage, exc = stages(arrays(), [ec.instantiate(
            cls, dest='dest', sources=srcs)])
        if exc is not None:
            continue
        # one fault per arrangement (all of them in the last arrangement)
        picks = only_src if srcs == ('dest',) else [
            only_src[int(rng.integers(len(only_src)))]]
        for n in picks:
            mode = str(rng.choice(['flat', 'group', 'subgroup']))
            stage, exc = stages(arrays(skip=n), wrap([ec.instantiate(
                cls, dest='dest', sources=srcs)], mode))
            nf += 1
            mon['faults_self-source'] = mon.get('faults_self-source', 0) + 1
            r = judge(stage, exc, cname, n, 'self-source')
            if r:
                bad(r[0], 'property %r (read through s_%s / a pair symbol '
                    'only) removed from array %r which is destination and '
                    'source, sources=%r (%s): %s' % (n, n, 'dest', srcs,
                                                    mode, r[1]),
                    dict(equation=name, array='dest', name=n,
                         kind='self-source', sources=list(srcs)))
            else:
                mon['rejected_at_' + stage] = mon.get(
                    'rejected_at_' + stage, 0) + 1
    return nf


def check_stepper(name, cls, mon, viol, rng):
    import inspect
    from pysph.sph.integrator import Integrator, EulerIntegrator
    from pysph.sph.equation import Equation
    try:
        st = ec.instantiate(cls)
    except Exception as e:
        mon['stepper_not_instantiable'] = mon.get(
            'stepper_not_instantiable', 0) + 1
        return 0
    need = set()
    for m in dir(st):
        if m == 'initialize' or (m.startswith('stage') and m[5:].isdigit()):
            for a in inspect.getfullargspec(getattr(st, m)).args:
                if a.startswith('d_') and a != 'd_idx':
                    need.add(a[2:])

    class Nothing(Equation):
        def initialize(self, d_idx, d_zz_extra):
            d_zz_extra[d_idx] = 0.0

    def build(skip=None, key='dest'):
        pa = make_array('dest', need - ({skip} if skip else set()))
        pa.add_property('zz_more')
        integ = Integrator(**{key: ec.instantiate(cls)})
        return stages([pa], [Nothing(dest='dest', sources=None)], integ)
    stage, exc = build()
    if exc is not None:
        mon['baseline_not_buildable'] = mon.get('baseline_not_buildable',
                                                0) + 1
        mon.setdefault('_unbuildable', []).append('%s: %s at %s: %s' % (
            name, type(exc).__name__, stage, str(exc)[:120]))
        return 0
    nf = 0
    for n in sorted(need):
        if n in BASE:
            continue
        stage, exc = build(skip=n)
        nf += 1
        mon['faults_stepper'] = mon.get('faults_stepper', 0) + 1
        r = judge(stage, exc, cls.__name__, n, 'stepper')
        if r:
            if sum(1 for v in viol if v['key'] == r[0]) < 3:
                viol.append(dict(key=r[0], what='%s: property %r removed: %s'
                                 % (name, n, r[1]),
                                 case=dict(stepper=name, name=n)))
            mon['violating_faults'] = mon.get('violating_faults', 0) + 1
        else:
            mon['rejected_at_' + stage] = mon.get('rejected_at_' + stage,
                                                  0) + 1
    # two arrays stepped by the same class, the incomplete one named first
    # (or last): each array has to be checked, not each stepper class
    cands = [n_ for n_ in sorted(need) if n_ not in BASE]
    if cands:
        n_ = cands[int(rng.integers(len(cands)))]
        # the complete problem first, in the same process (a script that is
        # edited and run again in one session): what was accepted before must
        # not make the incomplete variant acceptable
        full = [make_array('dest', need), make_array('dest2', need)]
        for pa_ in full:
            pa_.add_property('zz_more')
        stage, exc = stages(full, [Nothing(dest='dest', sources=None)],
                            Integrator(dest=ec.instantiate(cls),
                                       dest2=ec.instantiate(cls)))
        if exc is not None:
            mon['baseline_not_buildable'] = mon.get(
                'baseline_not_buildable', 0) + 1
        else:
            mon['complete_then_incomplete'] = mon.get(
                'complete_then_incomplete', 0) + 1
        for first_incomplete in (True, False):
            pa1 = make_array('dest', need - ({n_} if first_incomplete
                                             else set()))
            pa2 = make_array('dest2', need - (set() if first_incomplete
                                              else {n_}))
            for pa_ in (pa1, pa2):
                pa_.add_property('zz_more')
            integ = Integrator(dest=ec.instantiate(cls),
                               dest2=ec.instantiate(cls))
            stage, exc = stages([pa1, pa2],
                                [Nothing(dest='dest', sources=None)], integ)
            nf += 1
            mon['faults_stepper'] = mon.get('faults_stepper', 0) + 1
            r = judge(stage, exc, cls.__name__, n_, 'stepper-shared-class')
            if r:
                if sum(1 for v in viol if v['key'] == r[0]) < 3:
                    viol.append(dict(
                        key=r[0], what='%s on two arrays, property %r '
                        'removed from the %s one: %s' % (
                            name, n_, 'first' if first_incomplete else
                            'second', r[1]),
                        case=dict(stepper=name, name=n_,
                                  first=first_incomplete)))
                mon['violating_faults'] = mon.get('violating_faults', 0) + 1
    stage, exc = build(key='dset')
    nf += 1
    mon['faults_misspelt'] = mon.get('faults_misspelt', 0) + 1
    r = judge(stage, exc, 'dset', 'dset', 'misspelt-stepper-array')
    if r:
        if sum(1 for v in viol if v['key'] == r[0]) < 3:
            viol.append(dict(key=r[0], what='%s: %s' % (name, r[1]),
                             case=dict(stepper=name)))
        mon['violating_faults'] = mon.get('violating_faults', 0) + 1
    # several arrays: the misspelt keyword before, between or after valid
    # ones (keyword order is the order a scheme adds its steppers in)
    for order in (('dest', 'dest2', 'dset'), ('dest', 'dset', 'dest2'),
                  ('dset', 'dest', 'dest2')):
        pas = [make_array(nm_, need) for nm_ in ('dest', 'dest2')]
        for pa_ in pas:
            pa_.add_property('zz_more')
        integ = Integrator(**{k_: ec.instantiate(cls) for k_ in order})
        stage, exc = stages(pas, [Nothing(dest='dest', sources=None)], integ)
        nf += 1
        mon['faults_misspelt'] = mon.get('faults_misspelt', 0) + 1
        r = judge(stage, exc, 'dset', 'dset', 'misspelt-stepper-array')
        if r:
            if sum(1 for v in viol if v['key'] == r[0]) < 3:
                viol.append(dict(key=r[0], what='%s, stepper keywords %r: %s'
                                 % (name, order, r[1]),
                                 case=dict(stepper=name, order=order)))
            mon['violating_faults'] = mon.get('violating_faults', 0) + 1
    return nf


def generated_equations(rng, k):
    """Random user-style equations: any subset of hooks, random d_/s_ names,
    random pair symbols."""
    from pysph.sph.equation import Equation
    out = {}
    names = ['a', 'b', 'cc', 'rho', 'u', 'p', 'foo', 'au']
    for i in range(k):
        dn = [str(x) for x in rng.choice(names, size=rng.integers(1, 4),
                                         replace=False)]
        sn = [str(x) for x in rng.choice(names, size=rng.integers(0, 3),
                                         replace=False)]
        sym = [str(x) for x in rng.choice(['VIJ', 'RHOIJ', 'RHOIJ1', 'HIJ',
                                           'XIJ', 'WIJ', 'DWIJ', 'R2IJ'],
                                          size=rng.integers(0, 3),
                                          replace=False)]
        hook = str(rng.choice(['loop', 'loop', 'initialize', 'post_loop']))
        if hook != 'loop':
            sn, sym = [], []
        args = ['self', 'd_idx'] + ['d_' + n for n in dn]
        if hook == 'loop':
            args += ['s_idx'] + ['s_' + n for n in sn] + sym
        body = 'd_%s[d_idx] = 1.0' % dn[0]
        src = 'class Gen%d(Equation):\n    def %s(%s):\n        %s\n' % (
            i, hook, ', '.join(args), body)
        ns = dict(Equation=Equation)
        import linecache
        fname = '<generated-equation-%d-%d>' % (i, int(rng.integers(1 << 30)))
        linecache.cache[fname] = (len(src), None, src.splitlines(True), fname)
        exec(compile(src, fname, 'exec'), ns)
        cls = ns['Gen%d' % i]
        cls.__module__ = 'generated'
        out['generated.Gen%d(%s)' % (i, ','.join(args[1:]))] = cls
    return out


S_STEP_SRC = """
from pysph.sph.integrator_step import IntegratorStep


class VSourceArgStep(IntegratorStep):
    # a stepper that names properties through s_ arguments as well (for a
    # stepper both prefixes mean the stepped array itself)
    def initialize(self, d_idx, d_x, s_vx0):
        s_vx0[d_idx] = d_x[d_idx]

    def stage1(self, d_idx, d_x, d_u, s_vx0, s_vk, dt):
        d_x[d_idx] = s_vx0[d_idx] + dt*d_u[d_idx] + s_vk[d_idx]
"""


def check_source_arg_stepper(mon, viol):
    """Stepper arguments with the s_ prefix are checked like the d_ ones."""
    import linecache
    from pysph.sph.integrator import EulerIntegrator
    from pysph.sph.equation import Equation
    fname = '<c20-s-step>'
    linecache.cache[fname] = (len(S_STEP_SRC), None,
                              S_STEP_SRC.splitlines(True), fname)
    ns = {'__name__': 'c20_s_step'}
    exec(compile(S_STEP_SRC, fname, 'exec'), ns)
    cls = ns['VSourceArgStep']

    class Nothing(Equation):
        def initialize(self, d_idx, d_zz_extra):
            d_zz_extra[d_idx] = 0.0
    need = {'x', 'u', 'vx0', 'vk'}
    full = [make_array('dest', need), make_array('other', need)]
    stage, exc = stages(full, [Nothing(dest='dest', sources=None)],
                        EulerIntegrator(dest=cls()))
    if exc is not None:
        mon['baseline_not_buildable'] = mon.get(
            'baseline_not_buildable', 0) + 1
        mon.setdefault('_unbuildable', []).append(
            'VSourceArgStep: %s at %s: %s' % (type(exc).__name__, stage,
                                              str(exc)[:120]))
        return
    for missing in ('vx0', 'vk', 'u'):
        # the stepped array lacks it, another array of the problem has it
        arrays = [make_array('dest', need - {missing}),
                  make_array('other', need)]
        stage, exc = stages(arrays, [Nothing(dest='dest', sources=None)],
                            EulerIntegrator(dest=cls()))
        mon['faults_stepper'] = mon.get('faults_stepper', 0) + 1
        mon['faults_stepper_s_args'] = mon.get('faults_stepper_s_args',
                                               0) + 1
        r = judge(stage, exc, 'VSourceArgStep', missing, 'stepper-s-argument')
        if r:
            viol.append(dict(key=r[0], what='stepper argument %s_%s, '
                             'property removed from the stepped array: %s'
                             % ('s' if missing != 'u' else 'd', missing,
                                r[1]),
                             case=dict(stepper='VSourceArgStep',
                                       name=missing)))
            mon['violating_faults'] = mon.get('violating_faults', 0) + 1
        else:
            mon['rejected_at_' + stage] = mon.get('rejected_at_' + stage,
                                                  0) + 1


def work(item):
    mon = {}
    viol = []
    distinct = []
    samples = []
    rng = np.random.default_rng(common.case_seed(PROP, item['seed'],
                                                 item['part']))
    eqs = ec.equation_classes()
    sts = ec.stepper_classes()
    names = sorted(eqs)
    nparts = item['nparts']
    mine = names[item['part']::nparts]
    for n in mine:
        nf = check_equation(n, eqs[n], mon, viol, rng)
        if nf:
            distinct.append(n)
        mon['classes'] = mon.get('classes', 0) + 1
    for n in sorted(sts)[item['part']::nparts]:
        nf = check_stepper(n, sts[n], mon, viol, rng)
        if nf:
            distinct.append(n)
        mon['classes'] = mon.get('classes', 0) + 1
    if item['part'] == 0:
        check_source_arg_stepper(mon, viol)
    gen = generated_equations(rng, item.get('ngen', 6))
    for n, cls in gen.items():
        nf = check_equation(n, cls, mon, viol, rng)
        if nf:
            distinct.append('%s#%d' % (n, item['part']))
        mon['generated_classes'] = mon.get('generated_classes', 0) + 1
    unb = mon.pop('_unbuildable', [])
    if item['part'] == 0:
        samples.append(dict(example_class=mine[0] if mine else None,
                            needed=[sorted(x) for x in ec.needed_names(
                                ec.instantiate(eqs[mine[0]]))] if mine
                            else None))
    return dict(evaluations=sum(v for k, v in mon.items()
                                if k.startswith('faults_')),
                distinct=distinct, violations=viol, counters=mon,
                samples=samples, sets=dict(unbuildable=unb))


def run(tier):
    T = common.Timer()
    nparts = 32
    items = [dict(seed=common.seed(), part=p, nparts=nparts, flavour='plain',
                  ngen=6 if tier == 'quick' else 60) for p in range(nparts)]
    m = harness.execute('checks.c20', items, timeout=3000)
    v = common.Verdict(PROP)
    if m.counters.get('classes', 0) < 300:
        v.inconclusive_because('only %d classes enumerated' %
                               m.counters.get('classes', 0))
    for kind, least in (('faults_explicit-dest', 200),
                        ('faults_explicit-source', 200),
                        ('faults_pair-symbol', 100),
                        ('faults_self-source', 100),
                        ('faults_repeated', 100),
                        ('faults_stepper', 50), ('faults_misspelt', 100)):
        if m.counters.get(kind, 0) < least:
            v.inconclusive_because('%s = %d (< %d)' % (
                kind, m.counters.get(kind, 0), least))
    nb = m.counters.get('baseline_not_buildable', 0)
    return harness.finish(
        PROP, tier, 'fault_enumeration', m, v, T,
        rule='fault = (shipped or generated equation / stepper class, needed '
             'name, array it is removed from - the destination, one of two '
             'separate sources, or the destination used as its own source in '
             'either position of the source list) or a misspelt dest / source / '
             'stepper array name; needed names are the d_*/s_* arguments of '
             'the hook methods and u,v,w / rho implied by VIJ / RHOIJ / '
             'RHOIJ1; every such fault of every class whose complete problem '
             'builds is injected once; observed: which of AccelerationEval, '
             'SPHCompiler, code generation raises, and what the message '
             'names; distinct = classes with at least one fault injected',
        assumptions=['x, y, z, h are never removed (no particle array without '
                     'them can be given to a neighbour search)',
                     'set-up stops after code generation: nothing incomplete '
                     'is compiled or executed by this check',
                     '%d classes whose *complete* problem does not build with '
                     'the generic recipe are listed, not counted' % nb],
        extra_cov=dict(exhaustive=True, classes_enumerated=m.counters.get(
            'classes', 0)),
        min_evaluations=500, min_distinct=150)


def replay(path):
    with open(path) as fp:
        r = json.load(fp)
    print(json.dumps(r, indent=1)[:3000])
    print('re-run: ./vcheck C20 --tier quick (the enumeration is exhaustive '
          'and deterministic)')
    return 1
