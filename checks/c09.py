"""C09 - pair-symmetric momentum equations conserve linear / angular momentum.

Conservation monitor: the shipped momentum equations are compiled by the real
code generator and evaluated on closed sets of mutually interacting particle
arrays with random admissible state; sum(m a) and sum(m x cross a) are
compared with a rounding model relative to sum(m |a|)."""
import json

import numpy as np

from vlib import common, harness, evalkit, eqcatalog as ec

PROP = 'C09'

# class path -> (constructor overrides, central force?, acceleration names)
EQS = {
    'pysph.sph.wc.basic.MomentumEquation':
        (dict(c0=10.0, alpha=0.5, beta=0.3, gx=0.0, gy=0.0, gz=0.0,
              tensile_correction=False), True),
    'pysph.sph.wc.basic.MomentumEquation#tensile':
        (dict(c0=10.0, alpha=0.5, beta=0.3, gx=0.0, gy=0.0, gz=0.0,
              tensile_correction=True), True),
    'pysph.sph.wc.basic.MomentumEquationDeltaSPH':
        (dict(rho0=1.0, c0=10.0, alpha=0.3), True),
    'pysph.sph.basic_equations.MonaghanArtificialViscosity':
        (dict(alpha=1.0, beta=2.0), True),
    'pysph.sph.wc.transport_velocity.MomentumEquationPressureGradient':
        (dict(pb=1.5, gx=0.0, gy=0.0, gz=0.0, tdamp=0.0), True),
    'pysph.sph.wc.transport_velocity.MomentumEquationViscosity':
        (dict(nu=0.05), False),
    'pysph.sph.wc.transport_velocity.MomentumEquationArtificialViscosity':
        (dict(c0=10.0, alpha=0.4), True),
    'pysph.sph.wc.transport_velocity.MomentumEquationArtificialStress':
        (dict(), False),
    'pysph.sph.wc.edac.MomentumEquationPressureGradient':
        (dict(pb=0.0, gx=0.0, gy=0.0, gz=0.0, tdamp=0.0), True),
    'pysph.sph.wc.viscosity.LaminarViscosity':
        (dict(nu=0.05, eta=0.01), False),
    'pysph.sph.gas_dynamics.basic.MPMAccelerations':
        (dict(beta=2.0, update_alpha1=False, update_alpha2=False), True),
    'pysph.sph.gas_dynamics.basic.ADKEAccelerations':
        (dict(alpha=1.0, beta=1.0, g1=0.2, g2=0.4, k=1.0, eps=0.1), True),
    'pysph.sph.gas_dynamics.basic.Monaghan92Accelerations':
        (dict(alpha=1.0, beta=2.0), True),
    'pysph.sph.solid_mech.basic.MomentumEquationWithStress':
        (dict(), False),
    'pysph.sph.gas_dynamics.tsph.MomentumAndEnergy':
        (dict(dim='DIM', fkern=1.0, beta=2.0), True),
    'pysph.sph.gas_dynamics.psph.MomentumAndEnergy':
        (dict(dim='DIM', fkern=1.0, gamma=1.4, betab=2.0, alphac=0.25), True),
}
POSITIVE = ('rho', 'm', 'cs', 'V', 'h', 'omega', 'alpha1', 'alpha2', 'e', 'n',
            'alpha', 'wdeltap')
SAME_EVERYWHERE = ('pavg', 'wdeltap', 'n')


def build_module_case(seed, k):
    """Which (equation, dim, kernel, number of arrays) module k is."""
    names = sorted(EQS)
    rng = np.random.default_rng(common.case_seed(PROP, 'mod', seed, k))
    name = names[k % len(names)]
    dim = int(rng.integers(1, 4))
    # every equation is met in three dimensions first (all components of
    # the pair force and of the torque are live there), then in one or two
    if k < len(names):
        dim = 3
    elif k < 2 * len(names):
        dim = 1 + (k + seed) % 2
    kn = evalkit.kernels()
    while True:
        kname = str(rng.choice(kn))
        if ('1D' in kname) == (dim == 1) or ('1D' not in kname and dim > 1
                                             and kname not in ()):
            if '1D' in kname and dim != 1:
                continue
            if kname in ('WendlandQuintic', 'WendlandQuinticC4',
                         'WendlandQuinticC6') and dim == 1:
                continue
            if kname == 'SuperGaussian' and name.endswith(
                    'MomentumEquationWithStress'):
                # its artificial stress is pow(W/W(dp), n) with a fractional
                # n: meaningless (NaN) where the kernel is negative, which
                # only this kernel is - not a question of symmetry
                continue
            break
    narr = int(rng.choice([1, 2, 2, 3]))
    return dict(eq=name, dim=dim, kernel=kname, narr=narr, k=k)


def make_state(rng, mod, n_tot):
    from pysph.base import kernels as K
    dim = mod['dim']
    kernel = getattr(K, mod['kernel'])(dim=dim)
    cls = ec.equation_classes()[mod['eq'].split('#')[0]]
    names = ['a%d' % i for i in range(mod['narr'])]
    sizes = rng.multinomial(n_tot - 2 * len(names), np.ones(len(names)) /
                            len(names)) + 2
    eqs = []
    arrays = []
    ov = {k: (dim if v == 'DIM' else v) for k, v in EQS[mod['eq']][0].items()}
    proto = ec.instantiate(cls, ov, dest='a0', sources=names)
    d, s, imp = ec.needed_names(proto)
    need = sorted((d | s | imp) - {'x', 'y', 'z', 'h'})
    L = 1.0
    spacing = L / max(2.0, n_tot ** (1.0 / dim))
    shared = {p: float(rng.uniform(0.5, 2.0)) for p in SAME_EVERYWHERE}
    for nm, n in zip(names, sizes):
        pos = np.zeros((n, 3))
        pos[:, :dim] = rng.uniform(0, L, size=(n, dim))
        h = spacing * rng.uniform(1.0, 2.0) * 10 ** rng.uniform(
            -0.5, 0.0, size=n)
        props = {}
        for p in need:
            if p in SAME_EVERYWHERE:
                v = np.full(n, shared[p])
            elif p == 'm':
                v = spacing ** dim * 10 ** rng.uniform(-1, 1, size=n)
            elif p in POSITIVE:
                v = rng.uniform(0.5, 2.0, size=n)
            elif p.startswith('a') and p in ('au', 'av', 'aw', 'ae', 'auhat',
                                             'avhat', 'awhat', 'am',
                                             'aalpha1', 'aalpha2', 'arho'):
                v = np.zeros(n)
            else:
                v = rng.normal(size=n)
            props[p] = v
        arrays.append(evalkit.make_array(nm, pos, h, props))
    for nm in names:
        eqs.append(ec.instantiate(cls, ov, dest=nm, sources=names))
    return arrays, eqs, kernel


def momentum(arrays, dim):
    P = np.zeros(3)
    Lm = np.zeros(3)
    S = 0.0
    X = 0.0
    for pa in arrays:
        m = pa.get('m', only_real_particles=False)
        a = np.stack([pa.get(c, only_real_particles=False)
                      for c in ('au', 'av', 'aw')], 1)
        x = np.stack([pa.get(c, only_real_particles=False)
                      for c in ('x', 'y', 'z')], 1)
        P += (m[:, None] * a).sum(0)
        Lm += (m[:, None] * np.cross(x, a)).sum(0)
        S += float((m * np.linalg.norm(a, axis=1)).sum())
        X = max(X, float(np.abs(x).max()))
    return P, Lm, S, X


def work(item):
    from pysph.base import nnps as N
    mon = {}
    viol = []
    distinct = []
    samples = []
    if 'density' in item:
        return density_work(item)
    mod = item['mod']
    rng = np.random.default_rng(common.case_seed(PROP, item['seed'],
                                                 mod['k']))
    central = EQS[mod['eq']][1]
    n_tot = int(rng.integers(30, 120))
    arrays, eqs, kernel = make_state(rng, mod, n_tot)
    try:
        ev = evalkit.Evaluator(arrays, eqs, kernel, mod['dim'])
    except BaseException as e:
        return dict(evaluations=0, status='error',
                    detail='module %s did not build: %r' % (mod, e),
                    counters=mon)
    algos = ['LinkedListNNPS', 'BoxSortNNPS', 'SpatialHashNNPS',
             'ExtendedSpatialHashNNPS', 'CellIndexingNNPS',
             'StratifiedHashNNPS', 'OctreeNNPS', 'CompressedOctreeNNPS']
    if mod['narr'] == 1:
        algos += ['ZOrderNNPS']      # (multi-array: listed C01 finding)
    for rep in range(item['ndata']):
        # new random state in the same arrays
        for pa in arrays:
            n = pa.get_number_of_particles()
            for c in 'xyz'[:mod['dim']]:
                pa.get(c, only_real_particles=False)[:] = rng.uniform(
                    0, 1.0, size=n)
            for p in pa.properties:
                if p in ('x', 'y', 'z', 'h', 'm', 'tag', 'gid', 'pid') or \
                        p in SAME_EVERYWHERE:
                    continue
                arr = pa.get(p, only_real_particles=False)
                if arr.dtype.kind != 'f':
                    continue
                if p in POSITIVE:
                    arr[:] = rng.uniform(0.5, 2.0, size=len(arr))
                elif p in ('au', 'av', 'aw', 'ae', 'auhat', 'avhat', 'awhat'):
                    arr[:] = 0.0
                else:
                    arr[:] = rng.normal(size=len(arr))
        algo = algos[rep % len(algos)]
        ev.set_nnps(getattr(N, algo))
        ev.compute(0.0, 1e-3)
        P, Lm, S, X = momentum(arrays, mod['dim'])
        npairs = 0
        from cyarray.api import UIntArray
        nb = UIntArray()
        for d_ in range(len(arrays)):
            for s_ in range(len(arrays)):
                for i in range(0, arrays[d_].get_number_of_particles(), 7):
                    ev.nnps.get_nearest_particles(s_, d_, i, nb)
                    npairs += nb.length * 7
        mon['evaluations'] = mon.get('evaluations', 0) + 1
        mon['algo_' + algo] = mon.get('algo_' + algo, 0) + 1
        case = dict(module=mod, rep=rep, algo=algo,
                    n=[pa.get_number_of_particles() for pa in arrays])
        if S == 0 or npairs < 10:
            mon['trivial_no_interaction'] = mon.get(
                'trivial_no_interaction', 0) + 1
            continue
        distinct.append('%d/%d' % (mod['k'], rep))
        bound = 1e-11 * np.sqrt(max(npairs, 1)) * S
        if not np.all(np.isfinite(P)) or np.abs(P).max() > bound:
            key = 'linear-momentum:%s' % mod['eq']
            if sum(1 for v in viol if v['key'] == key) < 2:
                viol.append(dict(key=key, what='sum(m a) = %s, sum(m|a|) = '
                                 '%.3g, bound %.3g (%d pairs, %s, %s, %dD)'
                                 % (P.tolist(), S, bound, npairs, algo,
                                    mod['kernel'], mod['dim']), case=case))
            mon['violating_evaluations'] = mon.get(
                'violating_evaluations', 0) + 1
        elif central:
            mon['angular_checked'] = mon.get('angular_checked', 0) + 1
            if np.abs(Lm).max() > bound * max(X, 1.0):
                key = 'angular-momentum:%s' % mod['eq']
                if sum(1 for v in viol if v['key'] == key) < 2:
                    viol.append(dict(key=key, what='sum(m x cross a) = %s, '
                                     'bound %.3g' % (Lm.tolist(),
                                                     bound * max(X, 1.0)),
                                     case=case))
                mon['violating_evaluations'] = mon.get(
                    'violating_evaluations', 0) + 1
        if rep == 0 and mod['k'] % 5 == 0:
            samples.append(dict(case=case, P=P.tolist(), S=S, bound=bound))
    return dict(evaluations=mon.get('evaluations', 0), distinct=distinct,
                violations=viol, counters=mon, samples=samples,
                sets=dict(modules=['%s/%dD/%s/%d arrays' % (
                    mod['eq'], mod['dim'], mod['kernel'], mod['narr'])]))


def density_work(item):
    """Summation density is strictly positive wherever a particle sees
    itself."""
    from pysph.sph.basic_equations import SummationDensity
    from pysph.base import kernels as K
    mon = {}
    viol = []
    distinct = []
    k = item['density']
    rng = np.random.default_rng(common.case_seed(PROP, 'rho', item['seed'],
                                                 k))
    dim = 1 + k % 3
    kn = [n for n in evalkit.kernels() if n != 'SuperGaussian' and
          (('1D' in n) == (dim == 1) or ('1D' not in n and n in (
              'CubicSpline', 'Gaussian', 'QuinticSpline')))]
    kname = kn[(k // 3) % len(kn)]
    kernel = getattr(K, kname)(dim=dim)
    n = 80
    pos = np.zeros((n, 3))
    pos[:, :dim] = rng.uniform(0, 1, size=(n, dim))
    h = 0.1 * 10 ** rng.uniform(-1, 0.3, size=n)
    pa = evalkit.make_array('a', pos, h, dict(
        m=10 ** rng.uniform(-2, 0, size=n), rho=0.0))
    ev = evalkit.Evaluator([pa], [SummationDensity(dest='a', sources=['a'])],
                           kernel, dim)
    for rep in range(item['ndata']):
        pa.get('x')[:] = rng.uniform(0, 1, size=n)
        h[:] = 0.1 * 10 ** rng.uniform(-1, 0.3, size=n)
        pa.get('h')[:] = h
        ev.compute()
        rho = pa.get('rho')
        mon['density_particles'] = mon.get('density_particles', 0) + n
        distinct.append('rho/%d/%d' % (k, rep))
        if not np.all(rho > 0):
            viol.append(dict(key='density-not-positive:%s' % kname,
                             what='rho min %r with %s %dD' % (rho.min(),
                                                              kname, dim),
                             case=dict(k=k, rep=rep)))
    return dict(evaluations=item['ndata'], distinct=distinct, violations=viol,
                counters=mon)


def run(tier):
    T = common.Timer()
    seed = common.seed()
    nmod = 2 * len(EQS) if tier == 'quick' else 6 * len(EQS)
    ndata = 16 if tier == 'quick' else 100
    items = [dict(seed=seed, mod=build_module_case(seed, k), ndata=ndata,
                  flavour='plain', timeout=1800) for k in range(nmod)]
    items += [dict(seed=seed, density=k, ndata=ndata, flavour='plain',
                   timeout=1800) for k in range(3 if tier == 'quick' else 12)]
    m = harness.execute('checks.c09', items, timeout=1800)
    v = common.Verdict(PROP)
    if m.counters.get('evaluations', 0) < 100:
        v.inconclusive_because('only %d acceleration evaluations' %
                               m.counters.get('evaluations', 0))
    return harness.finish(
        PROP, tier, 'exploration', m, v, T,
        rule='module = (one of 16 pair-symmetric momentum equation set-ups, '
             'dim, kernel, 1-3 mutually interacting arrays), compiled by the '
             'real generator; per module 16 (100) random closed systems '
             '(positions, masses over 2 decades, per-particle h, random '
             'admissible pressure / density / velocity / stress state), '
             'cycling through 8-9 neighbour algorithms; |sum m a| and, for '
             'central forces, |sum m x cross a| against 1e-11 sqrt(pairs) '
             'sum(m|a|); plus summation density > 0; non-trivial = the system '
             'interacts (sum m|a| > 0)',
        assumptions=['prerequisite quantities (p, rho, cs, V, omega, stress, '
                     '...) are filled with random admissible values, not '
                     'computed: only the pair symmetry is under test',
                     'quantities that are constants of a formulation (pavg, '
                     'wdeltap, n) are equal for all particles',
                     'z-order family only on single-array systems (C01 '
                     'finding)'],
        min_evaluations=100, min_distinct=50)


def replay(path):
    with open(path) as fp:
        r = json.load(fp)
    print(json.dumps(r, indent=1)[:3000])
    return 1
