"""C11 - saved output loads back to the same particles and solver data.

Round-trip monitor: generated lists of real ParticleArrays are written with
pysph.solver.utils.dump and read back with load for every (format, compress,
detailed_output, only_real) combination; the loaded arrays are compared
structurally with the originals."""
import json
import os
import shutil
import tempfile

import numpy as np

from vlib import common, harness

PROP = 'C11'
TYPES = ['double', 'float', 'int', 'long', 'unsigned int']
NPT = {'double': np.float64, 'float': np.float32, 'int': np.int32,
       'long': np.int64, 'unsigned int': np.uint32}


def val(rng, typ, shape):
    if typ in ('double', 'float'):
        return (rng.integers(-64, 64, size=shape) * 0.25).astype(NPT[typ])
    if typ == 'unsigned int':
        return rng.integers(0, 1000, size=shape).astype(NPT[typ])
    return rng.integers(-1000, 1000, size=shape).astype(NPT[typ])


def gen_case(seed, idx):
    rng = np.random.default_rng(common.case_seed(PROP, seed, idx))
    narr = int(rng.integers(1, 4))
    arrays = []
    for a in range(narr):
        n = int(rng.choice([0, 1, 2, 7, 30]))
        props = {}
        for k in range(int(rng.integers(0, 5))):
            typ = str(rng.choice(TYPES))
            stride = int(rng.choice([1, 1, 2, 3, 9]))
            name = str(rng.choice(['alpha', 'beta_2', 'Q', 'x0', 'arr9',
                                   'tmp', 'vort'])) + '%d' % k
            props[name] = dict(type=typ, stride=stride,
                               default=val(rng, typ, ()).item(),
                               data=val(rng, typ, (n * stride,)).tolist())
        consts = {}
        for k in range(int(rng.integers(0, 3))):
            ln = int(rng.integers(1, 10)) if rng.random() < 0.8 else 0
            r_ = rng.random()
            if r_ < 0.6:
                consts['c%d' % k] = val(rng, 'double', (ln,)).tolist()
            elif r_ < 0.85:
                # integer constants (ids, counts; some beyond 2**53)
                consts['ci%d' % k] = [
                    int(v) for v in rng.integers(-5, 2 ** 62, size=ln)]
            else:
                consts['cf%d' % k] = [float(np.float32(v)) for v in
                                      rng.normal(size=ln)]
        tags = rng.choice([0, 0, 0, 1, 2], size=n).tolist() \
            if rng.random() < 0.5 else [0] * n
        outmode = str(rng.choice(['default', 'subset', 'empty', 'all']))
        arrays.append(dict(name=str(rng.choice(['fluid', 'solid', 'wall',
                                                'a_b', 'inlet'])) + '%d' % a,
                           n=n, props=props, consts=consts, tags=tags,
                           outmode=outmode,
                           x=val(rng, 'double', (n,)).tolist(),
                           seed=int(rng.integers(1 << 60))))
    sd = dict(t=float(rng.uniform(0, 10)), dt=float(10 ** rng.uniform(-6, 0)),
              count=int(rng.integers(0, 10 ** 6)))
    return dict(idx=idx, arrays=arrays, solver_data=sd,
                numpy_scalars=bool(rng.random() < 0.5))


def build(case):
    from pysph.base.utils import get_particle_array
    pas = []
    for a in case['arrays']:
        rng = np.random.default_rng(a['seed'])
        n = a['n']
        consts = {k: np.array(v, dtype=(
            np.int64 if k.startswith('ci') else (
                np.float32 if k.startswith('cf') else np.float64)))
            for k, v in a['consts'].items()} or None
        if a['seed'] % 3 == 0:
            # an array of non-local particles (a ghost / mirror array): new
            # particles default to that tag (documented constructor argument)
            from pysph.base.particle_array import ParticleArray
            pa = ParticleArray(name=a['name'],
                               default_particle_tag=int(1 + a['seed'] % 2),
                               constants=consts, x=np.array(a['x']),
                               tag=np.array(a['tags'], dtype=np.int32))
            for extra_ in ('y', 'z', 'h', 'm', 'rho'):
                pa.add_property(extra_)
            pa.set_output_arrays(['x', 'y', 'z', 'h', 'm', 'rho', 'tag',
                                  'gid', 'pid'])
        else:
            pa = get_particle_array(name=a['name'], x=np.array(a['x']),
                                    tag=np.array(a['tags'], dtype=np.int32),
                                    constants=consts)
        pa.add_property('uid', type='long', data=np.arange(n) + 100)
        for k, v in a['props'].items():
            pa.add_property(k, type=v['type'], stride=v['stride'],
                            default=v['default'],
                            data=np.array(v['data'], dtype=NPT[v['type']])
                            if n else None)
        pa.align_particles()
        names = list(pa.properties.keys())
        if a['outmode'] == 'subset':
            sel = [p for p in names if rng.random() < 0.5]
            pa.set_output_arrays(sel or ['x'])
        elif a['outmode'] == 'empty':
            pa.set_output_arrays([])
        elif a['outmode'] == 'all':
            pa.set_output_arrays(names)
        pas.append(pa)
    return pas


class Bad(Exception):
    def __init__(self, key, what):
        Exception.__init__(self, what)
        self.key, self.what = key, what


def compare(orig, got, detailed, only_real, where):
    if got.name != orig.name:
        raise Bad('name', '%s: name %r -> %r' % (where, orig.name, got.name))
    if set(got.properties) != set(orig.properties):
        raise Bad('property-set', '%s: properties differ: %s' % (
            where, sorted(set(got.properties) ^ set(orig.properties))))
    n = orig.get_number_of_particles(only_real)
    stored = list(orig.output_property_arrays)
    if detailed or not stored:
        stored = list(orig.properties)
    for p, arr in orig.properties.items():
        g = got.properties[p]
        if g.get_c_type() != arr.get_c_type():
            raise Bad('ctype', '%s: %s type %s -> %s' % (
                where, p, arr.get_c_type(), g.get_c_type()))
        if got.stride.get(p, 1) != orig.stride.get(p, 1):
            raise Bad('stride', '%s: %s stride %d -> %d' % (
                where, p, orig.stride.get(p, 1), got.stride.get(p, 1)))
        d0, d1 = orig.default_values[p], got.default_values.get(p)
        if d1 is None or float(d0) != float(d1):
            key = 'default'
            if p not in stored:
                key = 'default-of-unstored-property'
            raise Bad(key, '%s: %s default %r -> %r' % (where, p, d0, d1))
        st = orig.stride.get(p, 1)
        if p in stored:
            a = arr.get_npy_array()[:n * st]
            b = g.get_npy_array()
            if len(b) != n * st or not np.array_equal(a, b):
                raise Bad('values', '%s: %s values differ (%d vs %d values;'
                          ' first %r vs %r)' % (where, p, len(a), len(b),
                                                a[:6].tolist(),
                                                b[:6].tolist()))
            if b.dtype != a.dtype:
                raise Bad('dtype', '%s: %s dtype %s -> %s' % (where, p,
                                                              a.dtype,
                                                              b.dtype))
        elif g.length != got.get_number_of_particles() * st:
            raise Bad('unstored-length', '%s: unstored %s has %d values for '
                      '%d particles x stride %d' % (
                          where, p, g.length,
                          got.get_number_of_particles(), st))
    if 'tag' in stored and got.num_real_particles != \
            orig.num_real_particles:
        # the same particles are the real ones (what every `pa.x` shows)
        raise Bad('real-count', '%s: %d real particles -> %d (tags %s)' % (
            where, orig.num_real_particles, got.num_real_particles,
            got.properties['tag'].get_npy_array().tolist()[:20]))
    if set(got.constants) != set(orig.constants):
        raise Bad('constants', '%s: constants %s -> %s' % (
            where, sorted(orig.constants), sorted(got.constants)))
    for k, c in orig.constants.items():
        a, b = c.get_npy_array(), got.constants[k].get_npy_array()
        if len(a) != len(b) or not np.array_equal(a, b):
            raise Bad('constants', '%s: constant %s %r -> %r' % (
                where, k, a.tolist(), b.tolist()))
        if c.get_c_type() != got.constants[k].get_c_type():
            raise Bad('constant-type', '%s: constant %s of C type %s -> %s'
                      % (where, k, c.get_c_type(),
                         got.constants[k].get_c_type()))
    if set(got.output_property_arrays) != set(orig.output_property_arrays):
        raise Bad('output-arrays', '%s: output arrays %s -> %s (detailed=%s)'
                  % (where, sorted(orig.output_property_arrays),
                     sorted(got.output_property_arrays), detailed))
    if got.get_number_of_particles() != n:
        raise Bad('count', '%s: %d particles -> %d' % (
            where, n, got.get_number_of_particles()))


def run_case(case, tmp, mon):
    from pysph.solver.utils import dump, load
    pas = build(case)
    sd = dict(case['solver_data'])
    if case['numpy_scalars']:
        sd = dict(t=np.float64(sd['t']), dt=np.float64(sd['dt']),
                  count=np.int64(sd['count']))
    k = 0
    for fmt in ('npz', 'hdf5'):
        for compress in (False, True):
            for detailed in (False, True):
                for only_real in (True, False):
                    k += 1
                    where = '%s compress=%s detailed=%s only_real=%s' % (
                        fmt, compress, detailed, only_real)
                    fn = os.path.join(tmp, 'f_%d_%d.%s' % (case['idx'], k,
                                                           fmt))
                    dump(fn, pas, dict(sd), detailed_output=detailed,
                         only_real=only_real, compress=compress)
                    data = load(fn)
                    os.remove(fn)
                    mon['round_trips'] = mon.get('round_trips', 0) + 1
                    mon['rt_' + fmt] = mon.get('rt_' + fmt, 0) + 1
                    got = data['arrays']
                    if sorted(got) != sorted(p.name for p in pas):
                        raise Bad('array-names:' + fmt, '%s: arrays %s -> %s'
                                  % (where, [p.name for p in pas],
                                     sorted(got)))
                    for pa in pas:
                        try:
                            compare(pa, got[pa.name], detailed, only_real,
                                    where + ' array ' + pa.name)
                        except Bad as e:
                            raise Bad(e.key + ':' + fmt, e.what)
                    s2 = data['solver_data']
                    for key, v in case['solver_data'].items():
                        if key not in s2 or float(s2[key]) != float(v):
                            raise Bad('solver-data:' + fmt, '%s: solver_data'
                                      '[%s] %r -> %r' % (where, key, v,
                                                         s2.get(key)))
                    if set(s2) != set(case['solver_data']):
                        raise Bad('solver-data:' + fmt, '%s: keys %s' % (
                            where, sorted(s2)))
    # version-1 files: the layout that predates strides, types and defaults
    # (a dict of plain arrays per particle array)
    from pysph.solver.utils import dump_v1
    from pysph.base.utils import get_particle_array
    v1 = []
    for a, pa in zip(case['arrays'], pas):
        q = get_particle_array(name=pa.name, x=pa.get(
            'x', only_real_particles=False).copy())
        n = pa.get_number_of_particles()
        q.add_property('uid', data=pa.get('uid', only_real_particles=False)
                       .astype(float))
        for p, arr in pa.properties.items():
            if pa.stride.get(p, 1) == 1 and arr.get_c_type() == 'double' \
                    and p not in q.properties:
                q.add_property(p, data=arr.get_npy_array().copy()
                               if n else None)
        v1.append(q)
    fn = os.path.join(tmp, 'v1_%d.npz' % case['idx'])
    dump_v1(fn, v1, dict(case['solver_data']), detailed_output=True,
            only_real=False)
    data = load(fn)
    os.remove(fn)
    mon['v1_round_trips'] = mon.get('v1_round_trips', 0) + 1
    for q in v1:
        g = data['arrays'].get(q.name)
        if g is None:
            raise Bad('v1:array-missing', 'array %s missing' % q.name)
        n = q.get_number_of_particles()
        if g.get_number_of_particles() != n:
            raise Bad('v1:count', '%s: %d -> %d particles' % (
                q.name, n, g.get_number_of_particles()))
        if n == 0:
            continue
        o0 = np.argsort(q.get('uid', only_real_particles=False))
        o1 = np.argsort(g.get('uid', only_real_particles=False))
        for p in q.properties:
            if p not in g.properties:
                raise Bad('v1:property-missing', '%s.%s missing' % (q.name,
                                                                    p))
            a = q.get(p, only_real_particles=False)[o0]
            b = g.get(p, only_real_particles=False)[o1]
            if not np.array_equal(a.astype(float), b.astype(float)):
                raise Bad('v1:values', '%s.%s differs' % (q.name, p))
    for key, v in case['solver_data'].items():
        if float(data['solver_data'][key]) != float(v):
            raise Bad('v1:solver-data', '%s %r -> %r' % (
                key, v, data['solver_data'][key]))


def work(item):
    mon = {}
    viol = []
    distinct = []
    samples = []
    tmp = tempfile.mkdtemp(prefix='c11_', dir=os.environ.get(
        'VERIF_WORK_TMP', None))
    idxs = [item['replay_idx']] if 'replay_idx' in item else \
        range(item['lo'], item['hi'])
    try:
        for idx in idxs:
            case = gen_case(item['seed'], idx)
            try:
                run_case(case, tmp, mon)
            except Bad as e:
                if sum(1 for v in viol if v['key'] == e.key) < 2:
                    viol.append(dict(key=e.key, what=e.what,
                                     case=dict(idx=idx)))
                mon['violating_cases'] = mon.get('violating_cases', 0) + 1
            except Exception as e:
                import traceback
                key = 'raises:%s' % type(e).__name__
                if sum(1 for v in viol if v['key'] == key) < 2:
                    viol.append(dict(key=key, what=traceback.format_exc()[
                        -800:], case=dict(idx=idx)))
            distinct.append('%d' % idx)
            if idx % 100 == 0 and len(samples) < 2:
                c = json.loads(json.dumps(common.jsonable(case)))
                for a in c['arrays']:
                    for p in a['props'].values():
                        p['data'] = p['data'][:4]
                    a['x'] = a['x'][:4]
                    a['tags'] = a['tags'][:8]
                samples.append(c)
    finally:
        shutil.rmtree(tmp, ignore_errors=True)
    return dict(evaluations=len(list(idxs)), distinct=distinct,
                violations=viol, counters=mon, samples=samples)


def run(tier):
    T = common.Timer()
    n = 320 if tier == 'quick' else 6000
    items = [dict(seed=common.seed(), lo=a, hi=b, flavour='plain')
             for a, b in harness.chunks(n, 20 if tier == 'quick' else 100)]
    m = harness.execute('checks.c11', items, timeout=1800)
    v = common.Verdict(PROP)
    for key in ('rt_npz', 'rt_hdf5', 'v1_round_trips'):
        if m.counters.get(key, 0) < 50:
            v.inconclusive_because('%s = %d' % (key, m.counters.get(key, 0)))
    return harness.finish(
        PROP, tier, 'exploration', m, v, T,
        rule='case = 1-3 ParticleArrays (0-30 particles, 0-4 extra properties '
             'of 5 C types with strides 1/2/3/9 and non-zero defaults, 0-2 '
             'constants of length 0-9, mixed tags, output list default / '
             'subset / empty / all) + solver data as Python or numpy scalars; '
             'each case is round-tripped through all 16 (format, compress, '
             'detailed, only_real) combinations and a version-1 npz file; '
             'distinct = case index',
        assumptions=['stored values compared positionally (arrays are '
                     'aligned, dump writes the first n real or all rows)',
                     'version-1 files: stride-1 properties only (the format '
                     'predates strides)'],
        min_evaluations=100, min_distinct=50)


def replay(path):
    with open(path) as fp:
        r = json.load(fp)
    from vlib import runner
    res = runner.run_one('checks.c11', dict(replay_idx=r['case']['idx'],
                                            seed=common.seed()))
    print(json.dumps(res, indent=1)[:5000])
    return 1 if res.get('violations') else 0
