"""C16 - inlets and outlets move each particle across exactly once.

History monitor: real inlet / fluid / outlet (and ghost) particle arrays and
the real update objects of each of the five shipped boundary-condition
families (built through their SimpleInletOutlet manager) are driven for many
steps by a hostile particle mover (several rows crossing in one step,
particles crossing and coming back, transverse jitter, any flow direction).
Every particle carries a unique id.  Before every update() call the state is
snapshotted; afterwards an exactly-once ledger is checked: which ids must
have appeared in the fluid (with which property values), which inlet rows
must have been recycled one zone length upstream, which fluid ids must have
moved to the outlet, which outlet ids must be gone - and that nothing else
changed anywhere."""
import importlib
import json

import numpy as np

from vlib import common, harness

PROP = 'C16'
FAMILIES = {
    # name: (inlet ghost, outlet ghost)   as in the shipped examples
    'donothing': (True, False),
    'mirror': (True, True),
    'hybrid': (True, False),
    'characteristic': (True, False),
    'mod_donothing': (True, False),
}
COPY = ['x0', 'y0', 'z0', 'uhat', 'vhat', 'what', 'x', 'y', 'z', 'u', 'v',
        'w', 'm', 'h', 'rho', 'p', 'ioid', 'uid']
EPS = 0.000001


def basis(rng, dim, oblique):
    """Orthonormal basis whose first vector is the flow direction."""
    if not oblique:
        ax = int(rng.integers(dim))
        f = np.zeros(3)
        f[ax] = float(rng.choice([-1.0, 1.0]))
    else:
        f = np.zeros(3)
        f[:dim] = rng.normal(size=dim)
        f /= np.linalg.norm(f)
    B = [f]
    for ax in range(3):
        e = np.zeros(3)
        e[ax] = 1.0
        for b in B:
            e = e - (e @ b) * b
        if np.linalg.norm(e) > 1e-6 and len(B) < 3:
            B.append(e / np.linalg.norm(e))
    return np.array(B[:3])


def lattice(B, origin, s_vals, dim, width, dx):
    """Points origin + s*f + t1*b1 (+ t2*b2) on a lattice."""
    ts = [np.array([0.0])] * 2
    for k in range(dim - 1):
        ts[k] = (np.arange(width[k]) - 0.5 * (width[k] - 1)) * dx
    S, T1, T2 = np.meshgrid(s_vals, ts[0], ts[1], indexing='ij')
    P = (origin[None, :] + S.reshape(-1, 1) * B[0][None, :] +
         T1.reshape(-1, 1) * B[1][None, :] + T2.reshape(-1, 1) * B[2][None, :])
    if dim < 3:
        P[:, dim:] = 0.0
    return P


class World(object):
    def __init__(self, seed, k):
        from pysph.base.utils import get_particle_array
        from pysph.base.kernels import QuinticSpline
        from pysph.sph.bc.inlet_outlet_manager import InletInfo, OutletInfo
        rng = np.random.default_rng(common.case_seed(PROP, seed, k))
        self.rng = rng
        fam = sorted(FAMILIES)[k % 5]
        self.family = fam
        dim = int(rng.integers(1, 4))
        self.dim = dim
        oblique = bool(dim > 1 and rng.random() < 0.35)
        self.oblique = oblique
        B = basis(rng, dim, oblique)
        self.B = B
        dx = float(rng.choice([0.1, 0.05, 0.25]))
        self.dx = dx
        ni, nf, no = (int(rng.integers(2, 6)), int(rng.integers(3, 9)),
                      int(rng.integers(2, 6)))
        width = [int(rng.integers(1, 5)), int(rng.integers(1, 4))]
        origin = np.zeros(3)
        origin[:dim] = rng.uniform(-1, 1, size=dim)
        self.r_in = origin.copy()
        self.r_out = origin + nf * dx * B[0]
        self.n_in = -B[0]
        self.n_out = B[0].copy()
        self.L_in = ni * dx
        self.L_out = no * dx
        mod = 'pysph.sph.bc.%s.' % fam
        Manager = importlib.import_module(
            mod + 'simple_inlet_outlet').SimpleInletOutlet
        Inlet = importlib.import_module(mod + 'inlet').Inlet
        Outlet = importlib.import_module(mod + 'outlet').Outlet
        ig, og = FAMILIES[fam]
        if rng.random() < 0.25:
            ig = False
        self.ig, self.og = ig, og
        uid = [0]

        def make(name, P):
            n = len(P)
            ids = np.arange(uid[0], uid[0] + n, dtype=float)
            uid[0] += n
            pa = get_particle_array(
                name=name, x=P[:, 0], y=P[:, 1], z=P[:, 2],
                m=rng.uniform(0.5, 1.5, size=n), h=np.full(n, 1.3 * dx),
                rho=rng.uniform(0.9, 1.1, size=n), p=rng.normal(size=n),
                u=np.zeros(n), v=np.zeros(n), w=np.zeros(n))
            pa.add_property('uid', data=ids)
            return pa
        P_in = lattice(B, origin, -(np.arange(ni) + 0.5) * dx, dim, width, dx)
        P_fl = lattice(B, origin, (np.arange(nf) + 0.5) * dx, dim, width, dx)
        self.empty_start = bool(rng.random() < 0.2)
        if self.empty_start:
            # a channel that is filled through the inlet
            P_fl = P_fl[:0]
        P_out = lattice(B, self.r_out, (np.arange(no) + 0.5) * dx, dim, width,
                        dx)
        self.inlet = make('inlet', P_in)
        self.fluid = make('fluid', P_fl)
        self.outlet = make('outlet', P_out)
        self.next_uid = uid
        self.info_in = InletInfo(pa_name='inlet', normal=list(self.n_in),
                                 refpoint=list(self.r_in), has_ghost=ig,
                                 update_cls=Inlet)
        self.info_out = OutletInfo(pa_name='outlet', normal=list(self.n_out),
                                   refpoint=list(self.r_out), has_ghost=og,
                                   update_cls=Outlet,
                                   props_to_copy=list(COPY))
        iom = Manager(fluid_arrays=['fluid'], inletinfo=[self.info_in],
                      outletinfo=[self.info_out])
        iom.update_dx(dx)
        iom.setup_iom(dim, QuinticSpline(dim=dim))
        self.stage = int(rng.integers(1, 3))
        iom.active_stages = [self.stage]
        arrays = dict(inlet=self.inlet, fluid=self.fluid, outlet=self.outlet)
        self.ghost_in = self.ghost_out = None
        for pa in list(arrays.values()):
            iom.add_io_properties(pa)
        if ig:
            g = iom.create_ghost(self.inlet, inlet=True)
            self._complete_ghost(g, self.inlet, iom)
            arrays[g.name] = g
            self.ghost_in = g
        if og:
            g = iom.create_ghost(self.outlet, inlet=False)
            self._complete_ghost(g, self.outlet, iom)
            arrays[g.name] = g
            self.ghost_out = g
        self.arrays = arrays
        self.iom = iom
        self.io = iom.get_inlet_outlet(arrays)
        self.inlet_obj, self.outlet_obj = self.io
        self.U = float(rng.uniform(0.5, 2.0))
        self.t = 0.0
        self.entered = 0
        self.left = 0
        self.deleted = 0
        self.n0 = self.fluid.get_number_of_particles()

    def _complete_ghost(self, g, orig, iom):
        iom.add_io_properties(g)
        for p in orig.properties:
            if p not in g.properties:
                st = orig.stride.get(p, 1)
                g.add_property(p, stride=st,
                               type=orig.properties[p].get_c_type())
        g.get('uid')[:] = orig.get('uid')
        g.get('z')[:] = orig.z - 2 * self._disp(orig, self.r_in if
                                                orig.name == 'inlet' else
                                                self.r_out, self.n_in if
                                                orig.name == 'inlet' else
                                                self.n_out) * (
            self.n_in if orig.name == 'inlet' else self.n_out)[2]

    # --------------------------------------------------------- geometry
    @staticmethod
    def _disp(pa, ref, n):
        x, y, z = pa.get('x', 'y', 'z', only_real_particles=False)
        # same operation order as IOEvaluate.loop
        return (x - ref[0]) * n[0] + (y - ref[1]) * n[1] + (z - ref[2]) * n[2]

    def mirror(self, pa, ghost, ref, n):
        d = self._disp(pa, ref, n)
        for k, c in enumerate('xyz'):
            ghost.get(c, only_real_particles=False)[:] = pa.get(
                c, only_real_particles=False) - 2 * d * n[k]

    def move(self, dt):
        """The hostile mover: every particle gets its own speed along the
        flow (sometimes backwards, sometimes more than one row per step) and
        a little transverse jitter."""
        rng = self.rng
        mode = rng.random()
        for pa in (self.inlet, self.fluid, self.outlet):
            n = pa.get_number_of_particles()
            if n == 0:
                continue
            if pa is self.inlet:
                # an inlet feeds: rows move together (else recycled rows
                # would overlap), occasionally not at all
                s = np.full(n, self.U * (0.0 if mode < 0.1 else 1.0))
            elif mode < 0.5:
                s = np.full(n, self.U)
            elif mode < 0.8:
                s = self.U * rng.uniform(0.2, 1.6, size=n)
            else:
                s = self.U * rng.uniform(-1.2, 1.5, size=n)
            vel = s[:, None] * self.B[0][None, :]
            if self.dim > 1 and pa is not self.inlet:
                vel = vel + 0.05 * self.U * rng.normal(size=(n, 1)) * \
                    self.B[1][None, :]
            for kk, (c, vc) in enumerate(zip('xyz', 'uvw')):
                pa.get(vc, only_real_particles=False)[:] = vel[:, kk]
                pa.get(c, only_real_particles=False)[:] += dt * vel[:, kk]
        # now and then a fluid particle near the outlet plane jumps the
        # whole outlet zone in one step (a fast jet, a thin zone)
        nfl = self.fluid.get_number_of_particles()
        if nfl and rng.random() < 0.2:
            d = self._disp(self.fluid, self.r_out, self.n_out)
            near = np.nonzero((d > -2.5 * self.dx) & (d <= 0))[0]
            if len(near):
                pick = near[rng.random(len(near)) < 0.5][:3]
                for i in pick:
                    jump = (self.L_out + rng.uniform(0.2, 1.5) * self.dx) - \
                        d[i]
                    for kk, c in enumerate('xyz'):
                        self.fluid.get(c, only_real_particles=False)[i] += \
                            jump * self.n_out[kk]
                self.zone_jumps = getattr(self, 'zone_jumps', 0) + len(pick)
        # keep clear of the decision thresholds (the property does not say
        # on which side an exactly-on-the-plane particle is)
        for pa, ref, nrm, L in ((self.inlet, self.r_in, self.n_in, None),
                                (self.fluid, self.r_out, self.n_out, None),
                                (self.outlet, self.r_out, self.n_out,
                                 self.L_out_code)):
            d = self._disp(pa, ref, nrm)
            near = np.abs(d - EPS) < 1e-9
            if L is not None:
                near |= np.abs(d - L - EPS) < 1e-9
            if near.any():
                for kk, c in enumerate('xyz'):
                    pa.get(c, only_real_particles=False)[near] += \
                        1e-7 * nrm[kk]
        if self.ghost_in is not None:
            self.mirror(self.inlet, self.ghost_in, self.r_in, self.n_in)
        if self.ghost_out is not None:
            self.mirror(self.outlet, self.ghost_out, self.r_out, self.n_out)

    @property
    def L_out_code(self):
        return self.info_out.length

    # --------------------------------------------------------- snapshots
    def snap(self):
        out = {}
        for nm, pa in self.arrays.items():
            out[nm] = dict(
                n=pa.get_number_of_particles(),
                props={p: a.get_npy_array().copy()
                       for p, a in pa.properties.items()},
                stride=dict(pa.stride))
        return out


def rows(snapd, idx, names):
    return {p: snapd['props'][p].reshape(snapd['n'], -1)[idx]
            for p in names if p in snapd['props'] and snapd['n']}


def same_rows(a, ia, b, ib, names, what):
    for p in names:
        if p not in a['props'] or p not in b['props']:
            continue
        if a['n'] == 0 or b['n'] == 0:
            continue
        va = a['props'][p].reshape(a['n'], -1)[ia]
        vb = b['props'][p].reshape(b['n'], -1)[ib]
        if va.shape != vb.shape or not np.array_equal(va, vb):
            j = int(np.nonzero(~np.all(va == vb, axis=-1))[0][0]) \
                if va.shape == vb.shape else 0
            return '%s: property %s differs (first at entry %d: %r vs %r)' % (
                what, p, j, va[j].tolist() if len(va) > j else None,
                vb[j].tolist() if len(vb) > j else None)
    return None


def index_by_uid(snapd):
    u = snapd['props']['uid'] if snapd['n'] else np.zeros(0)
    d = {}
    dup = []
    for i, v in enumerate(u):
        if v in d:
            dup.append(v)
        d[v] = i
    return d, dup


def unchanged(pre, post, what):
    if pre['n'] != post['n']:
        return '%s: %d particles became %d' % (what, pre['n'], post['n'])
    for p in pre['props']:
        if p in ('ioid', 'disp'):
            continue        # scratch of the zone evaluation
        if p in post['props'] and not np.array_equal(pre['props'][p],
                                                     post['props'][p]):
            return '%s: property %s changed' % (what, p)
    return None


def check_inlet(W, pre, post, active, mon):
    """-> (key, what) or None."""
    names = [p for p in pre['inlet']['props'] if p not in ('ioid', 'disp')]
    if not active:
        for nm in pre:
            r = unchanged(pre[nm], post[nm], 'inactive stage, %s' % nm)
            if r:
                return 'inlet:inactive-stage', r
        return None
    d = W._disp_from(pre['inlet'], W.r_in, W.n_in)
    E = np.nonzero(~(d > EPS))[0] if len(d) else np.zeros(0, int)
    # property values of the zone evaluation
    mon['entered'] = mon.get('entered', 0) + len(E)
    if len(E) > 1:
        mon['multi_entry_updates'] = mon.get('multi_entry_updates', 0) + 1
    fpre, fpost = pre['fluid'], post['fluid']
    upre, dup0 = index_by_uid(fpre)
    upost, dup1 = index_by_uid(fpost)
    if dup1:
        return 'inlet:duplicate-in-fluid', 'fluid holds ids %r twice' % (
            dup1[:5],)
    want = set(upre) | set(pre['inlet']['props']['uid'][E].tolist())
    got = set(upost)
    if got != want or fpost['n'] != fpre['n'] + len(E):
        return 'inlet:ledger', (
            'fluid should hold %d + %d entered = %d particles, holds %d; '
            'missing ids %r, unexpected ids %r' % (
                fpre['n'], len(E), fpre['n'] + len(E), fpost['n'],
                sorted(want - got)[:6], sorted(got - want)[:6]))
    # survivors untouched
    keep = sorted(upre)
    r = same_rows(fpre, [upre[u] for u in keep], fpost,
                  [upost[u] for u in keep],
                  [p for p in fpre['props'] if p not in ('ioid', 'disp')],
                  'fluid particles already present')
    if r:
        return 'inlet:fluid-disturbed', r
    # copies carry the inlet's values
    ids = pre['inlet']['props']['uid'][E].tolist()
    r = same_rows(pre['inlet'], E, fpost, [upost[u] for u in ids], names,
                  'particle copied into the fluid')
    if r:
        return 'inlet:copy-values', r
    # inlet: same rows, E recycled one zone length upstream
    ipre, ipost = pre['inlet'], post['inlet']
    if ipost['n'] != ipre['n']:
        return 'inlet:inlet-count', 'inlet had %d particles, has %d' % (
            ipre['n'], ipost['n'])
    rest = np.setdiff1d(np.arange(ipre['n']), E)
    r = same_rows(ipre, rest, ipost, rest, names, 'inlet particle that did '
                  'not cross')
    if r:
        return 'inlet:inlet-disturbed', r
    r = same_rows(ipre, E, ipost, E, [p for p in names if p not in 'xyz'],
                  'recycled inlet particle')
    if r:
        return 'inlet:recycled-values', r
    if len(E):
        for k, c in enumerate('xyz'):
            shift = ipost['props'][c][E] - ipre['props'][c][E]
            want_s = W.L_in * W.n_in[k]
            if not np.allclose(shift, want_s, rtol=0, atol=1e-9):
                return 'inlet:recycle-distance', (
                    'recycled inlet particle moved by %r along %s, one zone '
                    'length (%g along the normal %r) is %r' % (
                        float(shift[0]), c, W.L_in, W.n_in.tolist(),
                        float(want_s)))
    if W.ghost_in is not None:
        gpre, gpost = pre[W.ghost_in.name], post[W.ghost_in.name]
        if gpost['n'] != gpre['n']:
            return 'inlet:ghost-count', 'ghost inlet %d -> %d' % (
                gpre['n'], gpost['n'])
        d2 = W._disp_from(ipost, W.r_in, W.n_in)
        for k, c in enumerate('xyz'):
            wantc = ipost['props'][c] - 2 * d2 * W.n_in[k]
            if not np.allclose(gpost['props'][c], wantc, rtol=0, atol=1e-9):
                j = int(np.argmax(np.abs(gpost['props'][c] - wantc)))
                return 'inlet:ghost-mirror', (
                    'ghost of inlet row %d is at %s=%r, the mirror image of '
                    'its original is at %r' % (j, c, gpost['props'][c][j],
                                               wantc[j]))
    for nm in pre:
        if nm in ('inlet', 'fluid') or (W.ghost_in is not None and
                                        nm == W.ghost_in.name):
            continue
        r = unchanged(pre[nm], post[nm], 'inlet update, array %s' % nm)
        if r:
            return 'inlet:bystander', r
    return None


def check_outlet(W, pre, post, active, mon):
    if not active:
        for nm in pre:
            r = unchanged(pre[nm], post[nm], 'inactive stage, %s' % nm)
            if r:
                return 'outlet:inactive-stage', r
        return None
    fpre, fpost = pre['fluid'], post['fluid']
    opre, opost = pre['outlet'], post['outlet']
    df = W._disp_from(fpre, W.r_out, W.n_out)
    Lv = np.nonzero(df > EPS)[0] if len(df) else np.zeros(0, int)
    do = W._disp_from(opre, W.r_out, W.n_out)
    D = np.nonzero(do - W.L_out > EPS)[0] if len(do) else np.zeros(0, int)
    mon['left'] = mon.get('left', 0) + len(Lv)
    mon['deleted'] = mon.get('deleted', 0) + len(D)
    if len(Lv) > 1:
        mon['multi_exit_updates'] = mon.get('multi_exit_updates', 0) + 1
    ufpre, _ = index_by_uid(fpre)
    ufpost, dupf = index_by_uid(fpost)
    uopre, _ = index_by_uid(opre)
    uopost, dupo = index_by_uid(opost)
    if dupf or dupo:
        return 'outlet:duplicate', 'ids twice: fluid %r outlet %r' % (
            dupf[:5], dupo[:5])
    lv_ids = fpre['props']['uid'][Lv].tolist() if fpre['n'] else []
    d_ids = opre['props']['uid'][D].tolist() if opre['n'] else []
    want_f = set(ufpre) - set(lv_ids)
    if set(ufpost) != want_f or fpost['n'] != fpre['n'] - len(Lv):
        return 'outlet:fluid-ledger', (
            'fluid should keep %d - %d = %d particles, holds %d; missing '
            '%r, unexpected %r' % (fpre['n'], len(Lv), fpre['n'] - len(Lv),
                                   fpost['n'],
                                   sorted(want_f - set(ufpost))[:6],
                                   sorted(set(ufpost) - want_f)[:6]))
    want_o = (set(uopre) - set(d_ids)) | set(lv_ids)
    if set(uopost) != want_o or opost['n'] != opre['n'] - len(D) + len(Lv):
        return 'outlet:outlet-ledger', (
            'outlet should hold %d - %d deleted + %d arrived = %d, holds %d; '
            'missing %r, unexpected %r (zone length %g)' % (
                opre['n'], len(D), len(Lv), opre['n'] - len(D) + len(Lv),
                opost['n'], sorted(want_o - set(uopost))[:6],
                sorted(set(uopost) - want_o)[:6], W.L_out))
    keep = sorted(want_f)
    r = same_rows(fpre, [ufpre[u] for u in keep], fpost,
                  [ufpost[u] for u in keep],
                  [p for p in fpre['props'] if p not in ('ioid', 'disp')],
                  'fluid particle that stayed')
    if r:
        return 'outlet:fluid-disturbed', r
    r = same_rows(fpre, Lv, opost, [uopost[u] for u in lv_ids],
                  [p for p in COPY if p != 'ioid'],
                  'particle moved to the outlet')
    if r:
        return 'outlet:copy-values', r
    keep = sorted(set(uopre) - set(d_ids))
    r = same_rows(opre, [uopre[u] for u in keep], opost,
                  [uopost[u] for u in keep],
                  [p for p in opre['props'] if p not in ('ioid', 'disp')],
                  'outlet particle that stayed')
    if r:
        return 'outlet:outlet-disturbed', r
    if W.ghost_out is not None:
        gpost = post[W.ghost_out.name]
        if gpost['n'] != opost['n']:
            return 'outlet:ghost-count', (
                'outlet has %d particles, its ghost array %d' % (
                    opost['n'], gpost['n']))
        if gpost['n'] and not np.array_equal(gpost['props']['uid'],
                                             opost['props']['uid']):
            return 'outlet:ghost-alignment', (
                'ghost rows are no longer aligned with the outlet rows')
        d2 = W._disp_from(opost, W.r_out, W.n_out)
        for k, c in enumerate('xyz'):
            wantc = opost['props'][c] - 2 * d2 * W.n_out[k]
            if gpost['n'] and not np.allclose(gpost['props'][c], wantc,
                                              rtol=0, atol=1e-9):
                j = int(np.argmax(np.abs(gpost['props'][c] - wantc)))
                return 'outlet:ghost-mirror', (
                    'ghost of outlet row %d at %s=%r, mirror image is %r' % (
                        j, c, gpost['props'][c][j], wantc[j]))
    for nm in pre:
        if nm in ('outlet', 'fluid') or (W.ghost_out is not None and
                                         nm == W.ghost_out.name):
            continue
        r = unchanged(pre[nm], post[nm], 'outlet update, array %s' % nm)
        if r:
            return 'outlet:bystander', r
    return None


def _disp_from(self, snapd, ref, n):
    if not snapd['n']:
        return np.zeros(0)
    x, y, z = (snapd['props'][c] for c in 'xyz')
    return (x - ref[0]) * n[0] + (y - ref[1]) * n[1] + (z - ref[2]) * n[2]


World._disp_from = _disp_from


def run_history(seed, k, mon):
    try:
        W = World(seed, k)
    except BaseException as e:
        return dict(k=k), ('build', '%s: %r' % (type(e).__name__, e))
    rng = W.rng
    desc = dict(k=k, family=W.family, dim=W.dim, oblique=W.oblique,
                dx=W.dx, normal_in=W.n_in.tolist(), L_in=W.L_in,
                L_out=W.L_out, inlet_ghost=W.ig, outlet_ghost=W.og,
                active_stage=W.stage, n_inlet=W.inlet.get_number_of_particles(),
                n_fluid=W.n0, n_outlet=W.outlet.get_number_of_particles())
    # what the manager worked out for the zone lengths (observed, part of
    # the recycle / delete rules)
    desc['manager_L_in'] = float(W.info_in.length)
    desc['manager_L_out'] = float(W.info_out.length)
    for nm, Lc, Lt in (('inlet', W.info_in.length, W.L_in),
                       ('outlet', W.info_out.length, W.L_out)):
        if abs(Lc - Lt) > 1e-9:
            return desc, ('%s:zone-length' % nm, (
                'the %s zone is %g long along its normal %r (%d rows of '
                'spacing %g); the manager uses %g' % (
                    nm, Lt, (W.n_in if nm == 'inlet' else W.n_out).tolist(),
                    round(Lt / W.dx), W.dx, Lc)))
    nsteps = int(rng.integers(8, 30))
    frac = float(rng.choice([0.3, 0.9, 1.7, 2.6]))
    dt = frac * W.dx / W.U
    if frac * W.dx >= min(W.L_in, W.L_out):
        dt = 0.9 * min(W.L_in, W.L_out) / (1.6 * W.U)
    desc['rows_per_step'] = dt * W.U / W.dx
    mon['histories'] = mon.get('histories', 0) + 1
    if W.empty_start:
        desc['empty_start'] = True
        mon['empty_start_histories'] = mon.get('empty_start_histories', 0) + 1
    for step in range(nsteps):
        W.move(dt)
        W.t += dt
        order = ['inlet', 'outlet'] if rng.random() < 0.5 else \
            ['outlet', 'inlet']
        for stage in (1, 2):
            for which in order:
                pre = W.snap()
                obj = W.inlet_obj if which == 'inlet' else W.outlet_obj
                try:
                    obj.update(W.t, dt, stage)
                except BaseException as e:
                    return desc, ('%s:raise' % which, 'step %d stage %d: '
                                  '%s: %r' % (step, stage, type(e).__name__,
                                              e))
                post = W.snap()
                mon['updates'] = mon.get('updates', 0) + 1
                fn = check_inlet if which == 'inlet' else check_outlet
                bad = fn(W, pre, post, stage == W.stage, mon)
                if bad:
                    return desc, (bad[0], 'step %d stage %d %s.update: %s' % (
                        step, stage, which, bad[1]))
                if which == 'inlet' and stage == W.stage:
                    # inlet rows are re-labelled after every update so that
                    # an id copied twice into the fluid shows up as a
                    # duplicate whenever it happens
                    n = W.inlet.get_number_of_particles()
                    ids = np.arange(W.next_uid[0], W.next_uid[0] + n,
                                    dtype=float)
                    W.next_uid[0] += n
                    W.inlet.get('uid', only_real_particles=False)[:] = ids
                    if W.ghost_in is not None:
                        W.ghost_in.get('uid',
                                       only_real_particles=False)[:] = ids
        nf = W.fluid.get_number_of_particles()
        mon['fluid_max'] = max(mon.get('fluid_max', 0), nf)
    mon['zone_jumps'] = mon.get('zone_jumps', 0) + getattr(W, 'zone_jumps', 0)
    return desc, None


def work(item):
    mon = {}
    viol = []
    distinct = []
    samples = []
    feats = set()
    for k in range(item['lo'], item['hi']):
        desc, bad = run_history(item['seed'], k, mon)
        distinct.append('%d' % k)
        if 'family' in desc:
            feats.add('%s/%dd/%s/ghost=%s,%s' % (
                desc['family'], desc['dim'],
                'oblique' if desc['oblique'] else 'axis',
                desc['inlet_ghost'], desc['outlet_ghost']))
        if bad:
            if sum(1 for v in viol if v['key'] == bad[0]) < 2:
                viol.append(dict(key=bad[0], what=bad[1][:1500], case=desc))
        if not samples and k % 5 == 0:
            samples.append(desc)
    fm = mon.pop('fluid_max', 0)
    return dict(evaluations=mon.get('updates', 0), distinct=distinct,
                violations=viol, counters=mon, samples=samples,
                sets=dict(configurations=sorted(feats)))


def run(tier):
    T = common.Timer()
    n = 24 if tier == 'quick' else 320
    per = 5
    items = [dict(seed=common.seed(), lo=per * i, hi=per * i + per,
                  flavour='plain', timeout=1800) for i in range(n)]
    m = harness.execute('checks.c16', items, timeout=1800)
    v = common.Verdict(PROP)
    c = m.counters
    for need, least in (('entered', 200), ('left', 200), ('deleted', 100),
                        ('multi_entry_updates', 20),
                        ('multi_exit_updates', 20), ('zone_jumps', 5)):
        if c.get(need, 0) < least:
            v.inconclusive_because('%s = %d (< %d)' % (need, c.get(need, 0),
                                                       least))
    return harness.finish(
        PROP, tier, 'exploration', m, v, T,
        rule='history = one of the five shipped families (manager, Inlet, '
             'Outlet classes and ghost arrays as in the shipped examples) x '
             '1-3 dimensions x flow direction (axis-aligned either way, or '
             'oblique) x zone lengths 2-5 rows x spacing x active stage, '
             'then 8-30 steps of a mover (uniform, sheared, or partly '
             'backward speeds, 0.3-2.6 rows per step, transverse jitter) each '
             'followed by inlet.update and outlet.update for stages 1 and 2 '
             'in random order; after every update call an exactly-once '
             'ledger over unique particle ids and all property values is '
             'checked against the pre-call snapshot',
        assumptions=['no particle is placed within 1e-9 of a zone plane '
                     '(which side it counts as is not specified)',
                     'inlet particles move less than a zone length per step '
                     '(fluid particles may jump the whole outlet zone)',
                     'ghost arrays are kept mirror images of their originals '
                     'by the mover (in a simulation: by the scheme)'],
        min_evaluations=500, min_distinct=20)


def replay(path):
    with open(path) as fp:
        r = json.load(fp)
    print(json.dumps(r, indent=1)[:4000])
    return 1
