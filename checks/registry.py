"""Which properties have a registered check, and at what level."""
CHECKS = {}
NOT_APPLICABLE = {}

def reg(pid, level, technique, text, note):
    CHECKS[pid] = dict(level=level, technique=technique, text=text, note=note)

reg('C10', 'exploration',
    'offline trace checker over recorded step/dump/callback events of the '
    'real Solver.solve() driven by a stub integrator',
    'Held on every generated (dt, tf, pfreq, output_at_times, n_damp, '
    'adaptive script, max_steps) schedule explored; tens of thousands of '
    'schedules per run, each trace checked against the full specification. '
    'Exploration, not proof: schedules are sampled.',
    'Trusts the stub integrator as a stand-in for the compiled one (the loop '
    'only calls step / initial_acceleration / compute_time_step on it) and '
    'the model of the nominal step (fixed dt, or last non-None adaptive value, '
    'times the documented damping factor).')

_pending = {
}
for _i in range(1, 21):
    _p = 'C%02d' % _i
    if _p not in CHECKS:
        NOT_APPLICABLE[_p] = ('check under construction in this session; '
                              'designed in DESIGN.md, not yet registered')
