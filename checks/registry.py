"""Which properties have a registered check, and at what level."""
CHECKS = {}
NOT_APPLICABLE = {}

def reg(pid, level, technique, text, note):
    CHECKS[pid] = dict(level=level, technique=technique, text=text, note=note)

reg('C10', 'exploration',
    'offline trace checker over recorded step/dump/callback events of the '
    'real Solver.solve() driven by a stub integrator',
    'Held on every generated (dt, tf, pfreq, output_at_times, n_damp, '
    'adaptive script, max_steps) schedule explored; tens of thousands of '
    'schedules per run, each trace checked against the full specification. '
    'Exploration, not proof: schedules are sampled.',
    'Trusts the stub integrator as a stand-in for the compiled one (the loop '
    'only calls step / initial_acceleration / compute_time_step on it) and '
    'the model of the nominal step (fixed dt, or last non-None adaptive value, '
    'times the documented damping factor).')

reg('C15', 'exploration',
    'metamorphic monitors (reflection, equal sides, Galilean shift, scaling, '
    'independent pressure-function residual, vacuum refusal) on the real '
    'solver functions and the dispatch function',
    'Held on every generated gas state explored (rho, p over 12 decades, u up '
    'to 1e3 sound speeds, gamma in (1,3], niter, tol): ~6e4 states x 11 '
    'solvers per quick run, 2e6 per thorough run.',
    'Python form of the solver functions (the transpiled form is the same '
    'source); tolerances are rounding models relative to the natural '
    'pressure/velocity scales; ill-conditioned comparisons are counted, not '
    'asserted.')

reg('C08', 'exploration',
    'independent numerical oracles (per-piece Gauss-Legendre quadrature, '
    'derivative of a Chebyshev interpolant of the observed W, scaling law, '
    'finite differences in h) plus call-by-call comparison with the compiled '
    'c_kernels twins',
    'Held for all 10 kernel classes x every dimension they accept x h from '
    '1e-6 to 1e6 on grids that include every piece boundary and the support '
    'edge +-1 ulp and random directions.',
    'Numerical tolerances: 2e-12 on the integral of polynomial kernels, 2e-8 '
    'of the natural scale on derivatives; Gaussian family integral only to '
    'its documented truncation; r > 2e-12.')

reg('C13', 'exploration',
    'numpy / long-double reference monitors on gj_solve and the matrix '
    'helpers (Python form) and on the compiled 3x3 eigen-decomposition, the '
    'latter also under gcc ASan+UBSan',
    'Held on every generated system in the asserted domain (non-singular, '
    'cond <= 1e8, n 1..6, 1..3 right-hand sides, ten matrix families) and '
    'every generated symmetric 3x3 matrix (eleven families, scales 1e-100 '
    'to 1e100); one listed known finding (absolute pivot threshold).',
    'Residual bound 1e3*n*eps*cond*|b|; nothing asserted for singular or '
    'cond > 1e8 input; transpiled form of the helpers is covered by C02/C12 '
    'code generation, not here.')

reg('C19', 'exploration',
    'numpy transcription of the statement evaluated beside the real '
    'Integrator.compute_time_step and Solver._compute_timestep on generated '
    'sets of real ParticleArrays refreshed by a real NNPS domain update',
    'Held (to 1e-12 relative) on every generated array set: 1-4 arrays, some '
    'empty or ghost-only, any subset of the criterion properties, zero / '
    'positive / mixed values, h on both sides of 1, fixed_h on/off.',
    'dt_adapt present but without a positive minimum is accepted as either '
    '"keep the fixed step" or "use the criteria formula"; the h min/max '
    'caches are as fresh as the last domain update, as in the solver loop.')

reg('C06', 'exploration',
    'record-list reference model (uid-keyed particle records) run beside the '
    'real ParticleArray through generated operation sequences, compared '
    'after every operation; replayed under gcc ASan+UBSan with an '
    'instrumented cyarray',
    'Held on every generated sequence (25 operation kinds, typed and strided '
    'properties, mixed tags, zero particles, second arrays with extra or '
    'missing properties): 640 sequences / 18k operations per quick run, '
    '20k sequences per thorough run, no sanitizer report.',
    'Only valid arguments; particle order is not asserted, only uid-keyed '
    'contents, lengths, strides, types, defaults, constants and the alignment '
    'postcondition; the output-array list is observed, not asserted.')

reg('C01', 'exploration',
    'numpy brute-force MUST/MAY reference sets compared with every query of '
    'all 12 NNPS classes over generated clouds, knob vectors, update '
    'histories, cache off/on (on: filled by the OpenMP loop); the same '
    'workload replayed on gcc ASan+UBSan and TSan builds (with a libgomp '
    'happens-before shim) of the working tree and of cyarray',
    'Held on every query explored (about 1.5 million per quick run) for the '
    'nine classes without a listed finding; four listed known findings (the '
    'z-order family with several or empty arrays, StratifiedSFCNNPS, octrees '
    'with coincident particles) are keyed by class family + structural '
    'condition so any other failure is still reported.',
    'Input domain: h > 0, |x|/cell < 2^20, <= 2^22 cells, unused coordinates '
    'constant; thread count set before construction; knob vectors whose '
    'stencil exceeds 2e5 boxes per query are skipped as too costly; a '
    'watchdog firing is inconclusive, never a violation.')

reg('C17', 'exploration',
    'permutation check of the spatially ordered index list, uid-keyed row '
    'equality over typed/strided properties before and after '
    'spatially_order_particles, alignment postcondition, and the C01 '
    'brute-force neighbour oracle after the following update; replayed under '
    'gcc ASan+UBSan',
    'Held for the seven implementing classes on every generated case '
    '(1-2 arrays, 8 distributions, 1-3 D, strides 1/2/3/9, four C types, '
    'Remote/Ghost tags in half the cases, 1-4 repeated re-orderings); the '
    'StratifiedSFCNNPS memory/neighbour defects are listed as known.',
    'z-order family exercised on single arrays only and inputs contain no '
    'exactly coincident particles (both are listed C01 findings).')

reg('C07', 'exploration',
    'product-rule reference model of the image set (numpy) compared with '
    'the arrays after every DomainManager update, with checks on wrapped real '
    'particles, copied / default properties, tags, duplicates and '
    'idempotence; replayed under gcc ASan+UBSan',
    'Held on every generated case: 1-3 D, every mix of periodic / mirror / '
    'free axes, boxes at random offsets, n_layers 1-3, 1-3 arrays, points on '
    'and one ulp inside the faces, variable h, property subsets as None / '
    'list / dict, 1-5 move / no-op / add-property rounds.',
    'Period >= 2.2 ghost layers; particles leave a periodic box by less than '
    'a period and stay strictly inside a mirror box (a particle exactly on a '
    'mirror face coincides with its image); threshold band 1e-12 of the '
    'period.')

reg('C11', 'exploration',
    'dump/load round-trip monitor: structural comparison (name, property '
    'set, C type, stride, default, constants, output list, stored values, '
    'solver data) of the loaded arrays with the originals for all 16 format '
    'x compress x detailed x only_real combinations plus version-1 files',
    'Held on every generated list of arrays (random property names / types '
    '/ strides / defaults, constants of length 1-9, mixed tags, zero '
    'particles): 320 cases x 17 round trips per quick run.',
    'Stored values compared positionally on aligned arrays; version-1 files '
    'hold stride-1 double properties only.')

reg('C18', 'exploration',
    'controlled scheduler + instrumented threading module driving the real '
    'controller at synchronisation-primitive granularity; offline checker '
    'over the client-boundary history (exactly-once execution on the solver '
    'thread, result delivery, pause protocol) and logical deadlock detection '
    '(unfinished threads, none enabled); plus an uncontrolled real-thread '
    'run as a cross-check',
    'Held on every schedule explored: 3200 (quick) / 300000 (thorough) '
    'worlds of 1-2 interface scripts x 3 scheduling strategies, > 97% of '
    'them distinct interleavings (hash of the operation sequence).',
    'Interleavings only at acquire / release / wait / notify granularity '
    '(as the property states); scripts respect the documented protocol; a '
    'schedule that exhausts its step budget is inconclusive; the '
    'instrumented primitives are self-tested in every run (mutual '
    'exclusion, re-entrancy, lost notify and ABBA deadlock must be found).')

reg('C20', 'fault_enumeration',
    'exhaustive fault injection at set-up: one needed name removed (or one '
    'array name misspelt) per run of the real AccelerationEval / SPHCompiler '
    '/ code generation, observing which stage raises and what the message '
    'names',
    'Every (class, needed name, array) fault of all 288 shipped equation '
    'classes and 36 stepper classes, plus generated equations, is injected: '
    'about 5700 faults, each must be rejected with a RuntimeError naming the '
    'class and the missing name before anything is compiled.',
    'Needed names are read off the hook signatures (d_*/s_* arguments; u,v,w '
    '/ rho for VIJ / RHOIJ / RHOIJ1); x, y, z, h, tag, gid, pid are never '
    'removed; set-up is stopped after code generation, so "never reaches '
    'execution" is decided by "raised before compile".')

reg('C12', 'exploration',
    'name-resolution monitor on the live scheme objects (every d_*/s_* '
    'argument, pair-symbol property and stepper argument against the live '
    'particle arrays), the real code generator, and for one vector per '
    'scheme a compile + 3 steps + finiteness check',
    'Held on the option grid explored: 16 scheme classes x dims 1-3 x with / '
    'without a solid array x clean, defaults + every single departure + the '
    'full product where it is small (grid size reported; exhaustive parts '
    'flagged), about 2000 vectors resolved, 180 generated, 12 compiled and '
    'run per quick run; one listed known finding (GTVF no-slip wall).',
    'Combinations a scheme itself refuses (ValueError / NotImplementedError '
    '/ AssertionError) are counted as refusals; compile-and-run is asserted '
    'only for the schemes whose generic initial data stays finite on the '
    'unchanged tree (PCISPH, GasD listed as not asserted; ISPH needs scipy).')

reg('C09', 'exploration',
    'conservation monitor: the real compiled evaluator on closed random '
    'systems, sum(m a) and sum(m x cross a) against a rounding model '
    'relative to sum(m|a|); summation density positivity',
    'Held on every evaluation explored: 15 momentum-equation set-ups (WCSPH, '
    'delta-SPH, Monaghan viscosity, TVF pressure / viscosity / artificial '
    'viscosity / artificial stress, EDAC, laminar viscosity, MPM, '
    'Monaghan92, TSPH, PSPH, solid stress) x dims 1-3 x kernels x 1-3 '
    'arrays x 8-9 neighbour algorithms x 16 (100) random states each.',
    'Prerequisite fields are random admissible values (only pair symmetry is '
    'tested); bound 1e-11 sqrt(pairs) sum(m|a|), three orders of magnitude '
    'below a 0.1% asymmetry (checked by mutation); angular momentum only '
    'for the central-force terms.')

reg('C02', 'translation_validation',
    'differential execution: the compiled evaluator against a reference '
    'interpreter that runs the same user-written Python equation methods '
    'with documented pair-symbol formulas and the Python kernel, group by '
    'group from the compiled state, on generated and shipped equations; '
    'generated programs also under gcc ASan+UBSan with the generated module '
    'instrumented',
    'Held on every program explored: per quick run 24 generated programs '
    '(grammar over the documented subset: typed / strided properties, '
    'constants, attributes, declared locals and matrices, helpers, t/dt, all '
    '21 pair symbols, loop_all, reduce) bit-exact when arithmetic-only, plus '
    'one sixth of the 288 shipped classes (all of them over six seeds / in '
    'thorough) to 512 ulp; classes not comparable are listed by name.',
    'Neighbour lists come from the real NNPS (C01), queried with the '
    'reference state at the moment of each query; groups whose Python '
    'meaning is undefined or non-finite are discarded and counted; float '
    'properties are only read into double contexts; % only on non-negative '
    'operands.')

reg('C03', 'exploration',
    'differential trace monitoring: recorder equations log every hook call '
    '(equation, hook, source array/index/tag, neighbour count) per destination '
    'particle and Python callables log events with array digests, in the '
    'compiled evaluator and in a reference interpreter of the documented group '
    'semantics run on an identical world; traces must be equal',
    'Held on every generated group tree after the template fix: per quick run '
    '48 programs x 3 computes (thorough 640) of 3-6 groups, a quarter with '
    'sub-groups, over 2-3 arrays with Remote and periodic Ghost particles, '
    'varying real, start_idx/stop_idx (numbers and constants), iterate with '
    'min/max and delayed convergence, condition, pre, post, update_nnps with '
    'moving particles, any subset of the seven hooks.  Found and fixed in '
    '/repo: the sub-group branch of the template ignored the indent level '
    '(parent condition / iterate did not enclose pre, post, update_nnps and '
    'conditional sub-groups).',
    'The interpreter takes neighbours from its own LinkedListNNPS on its '
    'own arrays (C01); single OpenMP thread; min_iterations <= '
    'max_iterations.')

reg('C04', 'exploration',
    'differential execution of whole time steps: the compiled integrator '
    'against literal Python execution of its one_timestep function on a '
    'reference object (Python stepper methods over real particles, separate '
    'neighbour search, documented group semantics), comparing every property '
    'of every array, post-stage callback arguments and py_stage hook calls '
    'after each of three consecutive steps; a slice also under gcc '
    'ASan+UBSan with the generated module instrumented',
    'Held on every program explored: per quick run 16 generated programs '
    '(one_timestep of 1-5 stages, 1-3 equation sets, update_nnps=False, '
    'steppers with py_stage hooks / attributes / strided and int '
    'properties, different stepper per array) bit for bit, and 16 of the 168 '
    '(shipped integrator, triple of shipped steppers) programs to 1e-11 '
    'relative; thorough runs all 168 (every one of the 14 integrators with '
    'every one of the 36 steppers) plus 168 generated.',
    'Reference neighbours from its own LinkedListNNPS (C01), equations by '
    'the documented group semantics (C02/C03); single OpenMP thread; '
    'one_timestep restricted to calls the documentation lists.')

reg('C14', 'exploration',
    'reference-model monitor: the real Interpolator / SPHEvaluator driven '
    'through random histories (interpolate, new target points, new source '
    'arrays, moved particles + update); every returned field compared with '
    'the defining sums computed by brute force in numpy over all source '
    'particles and periodic images, plus the characteristic guarantees of '
    'Shepard (constants, convex hull, empty neighbourhoods) and order1 '
    '(linear fields and gradients where the moment system is well '
    'conditioned)',
    'Held on every history explored after the fix: per quick run 80 '
    'Interpolator histories (all five methods x kernels x 1-3 dimensions x '
    '1-3 arrays with variable h, m, rho; explicit points and automatic '
    'grids; periodic domains) and 8 SPHEvaluator histories, ~500 '
    'interpolations / ~20000 points.  Found and fixed in /repo: order1 in '
    '3-d returned wrong results from the second interpolate() call on.',
    'Kernel values from the Python kernel classes (C08); the convex-hull '
    'guarantee is only asserted where no kernel weight is negative '
    '(SuperGaussian has a negative lobe); a linear field is not periodic, '
    'so order1 in periodic domains is checked on constants only.')

reg('C16', 'exploration',
    'history monitor with an exactly-once ledger: real inlet / fluid / '
    'outlet / ghost arrays and the real update objects of each shipped '
    'family driven for many steps by a hostile particle mover; every '
    'particle carries a unique id, every update() call is bracketed by '
    'snapshots and checked for which ids must have entered, left, been '
    'recycled or deleted, with which property values, and that nothing else '
    'changed',
    'Held on every history explored after the fix: per quick run 120 '
    'histories (5 families x 1-3 dimensions x axis-aligned and oblique flow '
    'directions x zone lengths x active stage; 8-30 steps with up to 2.6 '
    'rows crossing per step, backward movers, transverse jitter), ~9000 '
    'update calls, thousands of entries / exits / deletions.  Found and '
    'fixed in /repo: zone length wrong for normals that are not coordinate '
    'axes.',
    'Particles are kept 1e-9 clear of the zone planes; a step moves less '
    'than a zone length; ghost arrays are kept mirror images by the mover.')

reg('C05', 'exploration',
    'differential monitoring of whole runs: the same small simulations run '
    'through Application.run(argv) in separate processes under every '
    'combination class of --nnps / --cache-nnps / --openmp + thread count + '
    'schedule / --reorder-freq / --sort-gids; final states matched by unique '
    'particle id and compared with the reference run (bit for bit where '
    'neighbours are sorted, to 1e-7 of the property scale otherwise), twin '
    'runs compared bit for bit; OpenMP runs with 2-8 threads also under '
    'ThreadSanitizer with the generated module instrumented',
    'Held on everything explored except the listed findings: per quick run '
    '~80 complete runs of three problems (free-surface drop; tank with two '
    'fluids and a wall; doubly periodic vortex) covering all ten NNPS '
    'classes, cache on/off, 1-16 threads, re-ordering every 1-7 steps, '
    'twins; thorough ~590 runs.  Known: sfc / strat_sfc lose cross-array '
    'neighbours (same defect as C01), sh / esh / strat_hash refuse '
    're-ordering with NotImplementedError.',
    'Fixed time step; 20-25 steps; interleavings are those the OS produced, '
    'with TSan as the race oracle (0 reports, positive control passes).')

_pending = {
}
for _i in range(1, 21):
    _p = 'C%02d' % _i
    if _p not in CHECKS:
        NOT_APPLICABLE[_p] = ('check under construction in this session; '
                              'designed in DESIGN.md, not yet registered')
