"""C15 - Riemann solvers are reflection-symmetric; contact solvers admissible.

Metamorphic monitors on the real solver functions (Python form; the
transpiled form is exercised by C12's GSPH grid): reflection, equal sides,
Galilean shift, scaling, pressure-function residual, vacuum refusal."""
import json
import math

import numpy as np

from vlib import common, harness

PROP = 'C15'

NAMES = ['non_diffusive', 'van_leer', 'exact', 'hllc', 'ducowicz', 'hlle',
         'roe', 'llxf', 'hllc_ball', 'hll_ball', 'hllsy']
ITERATIVE = ('van_leer', 'exact')


def gen_state(rng):
    g = float(rng.choice([1.4, 5.0 / 3.0, 1.01, 3.0, 2.0,
                          float(rng.uniform(1.001, 3.0))]))
    span = float(rng.choice([0.5, 2, 6]))
    rhol, rhor = (float(10 ** rng.uniform(-span, span)) for _ in range(2))
    pl, pr = (float(10 ** rng.uniform(-span, span)) for _ in range(2))
    if rng.random() < 0.1:
        rhor, pr = rhol, pl
    cl = math.sqrt(g * pl / rhol)
    cr = math.sqrt(g * pr / rhor)
    cbar = 0.5 * (cl + cr)
    mode = rng.choice(['mild', 'mild', 'wide', 'zero', 'extreme'])
    if mode == 'mild':
        a, b = rng.normal(0, 1, 2)
    elif mode == 'wide':
        a, b = rng.normal(0, 8, 2)
    elif mode == 'zero':
        a = b = 0.0
        if rng.random() < 0.5:
            b = float(rng.normal(0, 1))
    else:
        a, b = (rng.choice([-1, 1]) * 10 ** rng.uniform(-3, 3)
                for _ in range(2))
    ul, ur = float(a * cbar), float(b * cbar)
    niter = int(rng.choice([1, 2, 5, 10, 20, 50]))
    tol = float(10 ** rng.uniform(-12, -3))
    return dict(rhol=rhol, rhor=rhor, pl=pl, pr=pr, ul=ul, ur=ur, gamma=g,
                niter=niter, tol=tol)


def call(fn, s, method=None):
    """-> (code, p*, u*) ; exceptions are 'not success' (code -1)."""
    res = [float('nan'), float('nan')]
    try:
        if method is None:
            rc = fn(s['rhol'], s['rhor'], s['pl'], s['pr'], s['ul'], s['ur'],
                    s['gamma'], s['niter'], s['tol'], res)
        else:
            rc = fn(method, s['rhol'], s['rhor'], s['pl'], s['pr'], s['ul'],
                    s['ur'], s['gamma'], s['niter'], s['tol'], res)
    except (ZeroDivisionError, ValueError, TypeError, OverflowError):
        return -1, float('nan'), float('nan')
    p, u = res
    if isinstance(p, complex) or isinstance(u, complex):
        return -1, float('nan'), float('nan')
    return rc, p, u


def mirror(s):
    m = dict(s)
    m.update(rhol=s['rhor'], rhor=s['rhol'], pl=s['pr'], pr=s['pl'],
             ul=-s['ur'], ur=-s['ul'])
    return m


def scales(s):
    cl = math.sqrt(s['gamma'] * s['pl'] / s['rhol'])
    cr = math.sqrt(s['gamma'] * s['pr'] / s['rhor'])
    U = max(abs(s['ul']), abs(s['ur'])) + max(cl, cr)
    P = max(s['pl'], s['pr']) + max(s['rhol'], s['rhor']) * U * U
    return cl, cr, U, P


def toro_f(p, rho, pk, ck, g):
    """Independent transcription of Toro's pressure function f_K and f_K'."""
    if p > pk:
        A = 2.0 / ((g + 1.0) * rho)
        B = (g - 1.0) / (g + 1.0) * pk
        q = math.sqrt(A / (p + B))
        return (p - pk) * q, q * (1.0 - 0.5 * (p - pk) / (B + p))
    pr = p / pk
    return (2.0 * ck / (g - 1.0) * (pr ** ((g - 1.0) / (2.0 * g)) - 1.0),
            1.0 / (rho * ck) * pr ** (-(g + 1.0) / (2.0 * g)))


class Mon(object):
    def __init__(self):
        self.viol = []
        self.cnt = {}

    def c(self, k, n=1):
        self.cnt[k] = self.cnt.get(k, 0) + n

    def bad(self, key, what, case):
        self.viol.append(dict(key=key, what=what, case=case))


def finite(*xs):
    return all(isinstance(x, float) and math.isfinite(x) for x in xs)


def check_state(mon, fns, dispatch, s, rng, example=None):
    cl, cr, U0, P0 = scales(s)
    sm = mirror(s)
    for k, name in enumerate(NAMES):
        fn = fns[name]
        U, P = U0, P0
        if name == 'ducowicz':
            # this solver adds *Lagrangian* sound speeds (rho*c) to
            # velocities, so its rounding scale contains rho*c as a velocity
            lag = max(math.sqrt(s['gamma'] * s['pl'] * s['rhol']),
                      math.sqrt(s['gamma'] * s['pr'] * s['rhor']))
            U = U0 + lag
            P = max(s['pl'], s['pr']) + max(s['rhol'], s['rhor']) * U * U
        it = name in ITERATIVE
        rc, p, u = call(fn, s)
        rcm, pm, um = call(fn, sm)
        mon.c('calls', 2)
        # ---- dispatch function agrees with the direct call
        rcd, pd, ud = call(dispatch, s, method=k)
        mon.c('dispatch_calls')
        same = (rcd == rc) and ((pd == p) or (pd != pd and p != p)) and \
            ((ud == u) or (ud != ud and u != u))
        if not same:
            mon.bad('dispatch:%s' % name, 'riemann_solve(method=%d) gives '
                    '(%r,%r,%r), %s gives (%r,%r,%r)' % (
                        k, rcd, pd, ud, name, rc, p, u), dict(state=s))
        # ---- reflection
        ok, okm = rc == 0, rcm == 0
        if ok != okm:
            if it:
                # borderline convergence? retry both with relaxed limits
                s2 = dict(s, niter=s['niter'] + 5, tol=s['tol'] * 4)
                r2 = call(fn, s2)[0] == 0
                r2m = call(fn, mirror(s2))[0] == 0
                if r2 == r2m:
                    mon.c('reflection_success_borderline')
                else:
                    mon.bad('reflection-success:%s' % name,
                            'success differs under reflection and stays '
                            'different with niter+5, 4*tol: %r vs %r' % (
                                rc, rcm), dict(state=s))
            else:
                mon.bad('reflection-success:%s' % name,
                        'return code %r vs mirrored %r' % (rc, rcm),
                        dict(state=s))
        elif ok:
            if not finite(p, u, pm, um):
                if finite(p, u) != finite(pm, um):
                    mon.bad('reflection-finite:%s' % name,
                            '(%r,%r) vs mirrored (%r,%r)' % (p, u, pm, um),
                            dict(state=s))
                mon.c('reflection_nonfinite_skipped')
            else:
                rel = max(100 * s['tol'], 1e-9) if it else 1e-9
                tp = rel * (abs(p) + (P if not it else abs(p)))
                if it:
                    tp = rel * abs(p) + 1e-9 * P
                mon.c('reflection_p_compared')
                if abs(p - pm) > tp:
                    mon.bad('reflection-p:%s' % name,
                            'p*=%r mirrored p*=%r (tol %g)' % (p, pm, tp),
                            dict(state=s))
                if abs(p) >= 1e-6 * P:
                    tu = rel * U * max(1.0, P / abs(p))
                    mon.c('reflection_u_compared')
                    if abs(u + um) > tu:
                        mon.bad('reflection-u:%s' % name,
                                'u*=%r mirrored u*=%r (tol %g)' % (u, um, tu),
                                dict(state=s))
                else:
                    mon.c('reflection_u_illconditioned')
        # ---- equal sides
        e = dict(s, rhor=s['rhol'], pr=s['pl'], ur=s['ul'])
        rce, pe, ue = call(fn, e)
        mon.c('calls')
        _, _, Ue, Pe = scales(e)
        if name == 'ducowicz':
            Ue = Ue + math.sqrt(e['gamma'] * e['pl'] * e['rhol'])
            Pe = e['pl'] + e['rhol'] * Ue * Ue
        if rce == 0 and Pe / e['pl'] > 1e6:
            mon.c('equal_sides_illconditioned')
        elif rce == 0:
            mon.c('equal_sides_compared')
            if not finite(pe, ue) or abs(pe - e['pl']) > 1e-9 * Pe or \
                    abs(ue - e['ul']) > 1e-9 * Ue * max(1.0, Pe / e['pl']):
                mon.bad('equal-sides:%s' % name,
                        'state (rho=%r,p=%r,u=%r) on both sides -> (%r, %r)'
                        % (e['rhol'], e['pl'], e['ul'], pe, ue),
                        dict(state=e))
        elif not (it and e['niter'] <= 2):
            if not it or e['niter'] > 2:
                mon.bad('equal-sides-fails:%s' % name,
                        'equal sides reported failure rc=%r' % rce,
                        dict(state=e))
        if not it or rc != 0:
            continue
        # ---- admissibility of the iterative contact solvers
        mon.c('iterative_success')
        if not (finite(p, u) and p > 0):
            mon.bad('success-nonpositive:%s' % name,
                    'success with p*=%r u*=%r' % (p, u), dict(state=s))
            continue
        rel = max(100 * s['tol'], 1e-9)
        # Galilean shift
        c = float(rng.normal(0, 3) * U)
        g = dict(s, ul=s['ul'] + c, ur=s['ur'] + c)
        rcg, pg, ug = call(fn, g)
        if rcg == 0:
            mon.c('galilean_compared')
            Ug = U + abs(c)
            if not finite(pg, ug) or \
                    abs(pg - p) > rel * abs(p) + 1e-9 * max(
                        s['rhol'], s['rhor']) * Ug * Ug or \
                    abs(ug - (u + c)) > rel * Ug:
                mon.bad('galilean:%s' % name,
                        'shift %r: (%r,%r) -> (%r,%r)' % (c, p, u, pg, ug),
                        dict(state=s, shift=c))
        else:
            mon.c('galilean_partner_failed')
        # scaling of p and rho
        kk = float(2.0 ** int(rng.integers(-20, 20))) if rng.random() < 0.5 \
            else float(10 ** rng.uniform(-3, 3))
        if p * kk > 1e-15 and min(s['pl'], s['pr']) * kk > 1e-15:
            sc = dict(s, rhol=s['rhol'] * kk, rhor=s['rhor'] * kk,
                      pl=s['pl'] * kk, pr=s['pr'] * kk)
            rcs, ps, us = call(fn, sc)
            if rcs == 0:
                mon.c('scaling_compared')
                if not finite(ps, us) or \
                        abs(ps - kk * p) > rel * kk * abs(p) + 1e-9 * kk * P \
                        or abs(us - u) > rel * U:
                    mon.bad('scaling:%s' % name,
                            'factor %r: (%r,%r) -> (%r,%r)' % (
                                kk, p, u, ps, us), dict(state=s, factor=kk))
            else:
                mon.c('scaling_partner_failed')
        if name == 'exact':
            fl, dl = toro_f(p, s['rhol'], s['pl'], cl, s['gamma'])
            fr, dr = toro_f(p, s['rhor'], s['pr'], cr, s['gamma'])
            F = fl + fr + (s['ur'] - s['ul'])
            bound = 10 * s['tol'] * p * (dl + dr) + 1e-9 * (
                cl + cr + abs(s['ur'] - s['ul']))
            mon.c('residual_compared')
            if not abs(F) <= bound:
                mon.bad('exact-residual', 'f_l+f_r+du = %r at p*=%r, bound %g'
                        ' (tol %g)' % (F, p, bound, s['tol']), dict(state=s))
            us2 = 0.5 * (s['ul'] + s['ur']) + 0.5 * (fr - fl)
            if abs(us2 - u) > rel * U:
                mon.bad('exact-ustar', 'u*=%r, 0.5(ul+ur+f_r-f_l)=%r' % (
                    u, us2), dict(state=s))
    # ---- vacuum refusal (exact)
    g4 = 2.0 / (s['gamma'] - 1.0)
    du = g4 * (cl + cr) * float(rng.uniform(1.0 + 1e-9, 3.0))
    v = dict(s, ul=-0.5 * du, ur=0.5 * du, niter=max(s['niter'], 5))
    clv, crv, _, _ = scales(v)
    if g4 * (clv + crv) <= v['ur'] - v['ul']:
        rcv, pv, uv = call(fns['exact'], v)
        mon.c('vacuum_checked')
        if rcv == 0:
            mon.bad('vacuum-accepted', 'exact() reports success (%r,%r) for '
                    'vacuum-generating data' % (pv, uv), dict(state=v))
    if example is not None:
        check_example(mon, example, s, U, P)


def check_example(mon, ex, s, U, P):
    """pysph/examples/gas_dynamics/riemann_solver.star_pu_newton_raphson."""
    if s['gamma'] != ex.gamma:
        ex.set_gamma(s['gamma'])
    cl, cr, _, _ = scales(s)
    if 2.0 / (s['gamma'] - 1) * (cl + cr) <= (s['ur'] - s['ul']) * 1.2:
        return

    def run(t):
        c_l = math.sqrt(t['gamma'] * t['pl'] / t['rhol'])
        c_r = math.sqrt(t['gamma'] * t['pr'] / t['rhor'])
        try:
            return ex.star_pu_newton_raphson(
                t['rhol'], t['ul'], t['pl'], c_l, t['rhor'], t['ur'],
                t['pr'], c_r)
        except (ZeroDivisionError, ValueError, TypeError, OverflowError,
                SystemExit):
            return None
    a = run(s)
    b = run(mirror(s))
    mon.c('example_calls', 2)
    if a is None or b is None:
        mon.c('example_failed')
        return
    (p, u), (pm, um) = a, b
    if not finite(float(p), float(u), float(pm), float(um)):
        mon.c('example_nonfinite')
        return
    mon.c('example_compared')
    if abs(p - pm) > 1e-4 * abs(p) + 1e-9 * P or abs(u + um) > 1e-4 * U:
        mon.bad('example-reflection', 'star_pu_newton_raphson (%r,%r) vs '
                'mirrored (%r,%r)' % (p, u, pm, um), dict(state=s))


def load():
    import importlib
    rs = importlib.import_module('pysph.sph.gas_dynamics.riemann_solver')
    fns = {n: getattr(rs, n) for n in NAMES}
    # the module's printf takes one argument; the solvers call it with two
    # (C form).  That raises TypeError in Python, counted as "not success".
    try:
        ex = importlib.import_module(
            'pysph.examples.gas_dynamics.riemann_solver')
        ex.set_gamma(1.4)
        ex.print = lambda *a, **k: None
    except Exception:
        ex = None
    return rs, fns, ex


_loaded = None


def work(item):
    global _loaded
    if _loaded is None:
        _loaded = load()
    rs, fns, ex = _loaded
    mon = Mon()
    if 'replay_state' in item:
        rng = np.random.default_rng(0)
        for _ in range(8):
            check_state(mon, fns, rs.riemann_solve, item['replay_state'], rng,
                        ex)
        return dict(evaluations=1, violations=mon.viol, counters=mon.cnt)
    distinct = []
    samples = []
    for idx in range(item['lo'], item['hi']):
        rng = np.random.default_rng(common.case_seed(PROP, item['seed'], idx))
        s = gen_state(rng)
        check_state(mon, fns, rs.riemann_solve, s, rng,
                    ex if idx % 4 == 0 else None)
        if s['ul'] != s['ur'] or s['pl'] != s['pr']:
            distinct.append(common.digest(s))
        if idx == item['lo'] and idx % 20000 == 0:
            samples.append(dict(state=s, exact=call(fns['exact'], s),
                                hllc=call(fns['hllc'], s)))
    # cap the number of violation records sent back per key
    seen = {}
    out = []
    for v in mon.viol:
        seen[v['key']] = seen.get(v['key'], 0) + 1
        if seen[v['key']] <= 3:
            out.append(v)
    mon.cnt['violating_observations'] = len(mon.viol)
    return dict(evaluations=item['hi'] - item['lo'], distinct=distinct,
                violations=out, counters=mon.cnt, samples=samples)


def run(tier):
    T = common.Timer()
    n = 60000 if tier == 'quick' else 2000000
    items = [dict(seed=common.seed(), lo=a, hi=b, flavour='plain')
             for a, b in harness.chunks(n, 1000 if tier == 'quick' else 10000)]
    m = harness.execute('checks.c15', items, timeout=3600)
    v = common.Verdict(PROP)
    for key in ('reflection_p_compared', 'equal_sides_compared',
                'galilean_compared', 'scaling_compared', 'residual_compared',
                'vacuum_checked'):
        if m.counters.get(key, 0) < 100:
            v.inconclusive_because('monitor %s fired only %d times' % (
                key, m.counters.get(key, 0)))
    return harness.finish(
        PROP, tier, 'exploration', m, v, T,
        rule='states (rho, p log-uniform over up to 12 decades, u in units of '
             'the sound speed from 0 to 1e3, gamma in (1,3], niter 1..50, tol '
             '1e-12..1e-3) from (VERIF_SEED, index); each state is run '
             'through all 11 solver functions, the dispatch function and (one '
             'in four) the example Newton-Raphson solver with reflection / '
             'equal-sides / Galilean / scaling / residual / vacuum monitors; '
             'non-trivial = the two sides differ; distinct = digest of state',
        assumptions=['solver functions are exercised in their Python form; a '
                     'Python exception (ZeroDivisionError, complex power, the '
                     'two-argument printf) counts as "not success"',
                     'tolerances: 1e-9 relative to the natural pressure / '
                     'velocity scale for closed-form solvers, max(100*tol, '
                     '1e-9) for the iterative ones; u* unasserted where '
                     '|p*| < 1e-6 of the pressure scale'],
        min_evaluations=1000, min_distinct=500)


def replay(path):
    with open(path) as fp:
        r = json.load(fp)
    from vlib import runner
    res = runner.run_one('checks.c15', dict(
        replay_state=r['case']['state']))
    print(json.dumps(res, indent=1)[:6000])
    return 1 if res.get('violations') else 0
