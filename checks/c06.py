"""C06 - a particle array stays coherent under any sequence of operations.

Reference-model monitor: a record-list model (one dict per particle keyed by
a unique uid) executes the same generated sequence of public ParticleArray
operations; after *every* operation the real array is compared with it.
Replayed on the ASan+UBSan flavour with an instrumented cyarray."""
import copy
import json
import pickle
import re

import numpy as np

from vlib import common, harness

PROP = 'C06'
TYPES = ['double', 'float', 'int', 'long', 'unsigned int']
NPT = {'double': np.float64, 'float': np.float32, 'int': np.int32,
       'long': np.int64, 'unsigned int': np.uint32}
LOCAL, REMOTE, GHOST = 0, 1, 2


OBSERVED = {}


class Mismatch(Exception):
    def __init__(self, key, what):
        Exception.__init__(self, what)
        self.key = key
        self.what = what


def val(rng, typ, shape):
    if typ in ('double', 'float'):
        return (rng.integers(-64, 64, size=shape) * 0.25).astype(NPT[typ])
    if typ == 'unsigned int':
        return rng.integers(0, 1000, size=shape).astype(NPT[typ])
    return rng.integers(-1000, 1000, size=shape).astype(NPT[typ])


class Model(object):
    """Record-list model: self.rows[uid] = {prop: tuple(values)}."""

    def __init__(self, name):
        self.name = name
        self.meta = {}        # prop -> dict(type, stride, default)
        self.rows = {}        # uid -> {prop: np.array(stride)}
        self.constants = {}
        self.output = []

    def clone_meta(self):
        m = Model(self.name)
        m.meta = copy.deepcopy(self.meta)
        m.constants = {k: v.copy() for k, v in self.constants.items()}
        m.output = list(self.output)
        return m

    def n(self):
        return len(self.rows)

    def new_row(self, uid, given):
        r = {}
        for p, m in self.meta.items():
            if p in given:
                r[p] = np.asarray(given[p], dtype=NPT[m['type']]).reshape(
                    m['stride']).copy()
            else:
                r[p] = np.full(m['stride'], m['default'],
                               dtype=NPT[m['type']])
        r['uid'] = np.array([uid], dtype=np.int64)
        return r

    def num_real(self):
        return sum(1 for r in self.rows.values() if int(r['tag'][0]) == LOCAL)


def make_pa(rng, name, n, uid0):
    """A real ParticleArray + its model, through get_particle_array."""
    from pysph.base.utils import get_particle_array
    props = {}
    meta = {}
    for k in range(int(rng.integers(0, 4))):
        typ = str(rng.choice(TYPES))
        stride = int(rng.choice([1, 1, 2, 3, 9]))
        default = val(rng, typ, ()).item()
        pname = 'p%d_%s' % (k, name)
        data = val(rng, typ, (n, stride))
        props[pname] = dict(type=typ, stride=stride, default=default,
                            data=data.ravel())
        meta[pname] = dict(type=typ, stride=stride, default=default)
    uids = np.arange(uid0, uid0 + n)
    x = val(rng, 'double', (n,))
    tags = rng.choice([LOCAL, LOCAL, LOCAL, REMOTE, GHOST], size=n) \
        if rng.random() < 0.5 else np.zeros(n, dtype=int)
    pa = get_particle_array(name=name, x=x, tag=tags.astype(np.int32))
    pa.add_property('uid', type='long', data=uids)
    for k, v in props.items():
        pa.add_property(k, type=v['type'], stride=v['stride'],
                        default=v['default'],
                        data=v['data'] if n else None)
    pa.align_particles()
    return pa, meta, uids, tags, props


def build_model(pa):
    """Derive the initial model from the freshly built array (its layout is
    the one get_particle_array documents: x,y,z,u,v,w,m,h,rho,p,pid,gid,tag +
    ours); from here on the model is advanced independently."""
    m = Model(pa.name)
    for p, arr in pa.properties.items():
        m.meta[p] = dict(type=arr.get_c_type(), stride=pa.stride.get(p, 1),
                         default=pa.default_values[p])
    n = pa.get_number_of_particles()
    cols = {p: pa.get(p, only_real_particles=False).reshape(
        n, m.meta[p]['stride']).copy() for p in m.meta}
    for i in range(n):
        uid = int(cols['uid'][i, 0])
        m.rows[uid] = {p: cols[p][i].copy() for p in m.meta}
    m.constants = {k: v.get_npy_array().copy()
                   for k, v in pa.constants.items()}
    m.output = list(pa.output_property_arrays)
    return m


def compare(pa, m, where, aligned=True):
    n = m.n()
    got_n = pa.get_number_of_particles()
    if got_n != n:
        raise Mismatch('count', '%s: %d particles, model %d' % (where, got_n,
                                                                n))
    if set(pa.properties.keys()) != set(m.meta.keys()):
        raise Mismatch('property-set', '%s: properties %s vs model %s' % (
            where, sorted(set(pa.properties) ^ set(m.meta)), ''))
    cols = {}
    for p, mt in m.meta.items():
        arr = pa.get_carray(p)
        st = pa.stride.get(p, 1)
        if st != mt['stride']:
            raise Mismatch('stride', '%s: stride[%s]=%d, model %d' % (
                where, p, st, mt['stride']))
        if arr.length != n * mt['stride']:
            raise Mismatch('length', '%s: len(%s)=%d, n*stride=%d*%d' % (
                where, p, arr.length, n, mt['stride']))
        if arr.get_c_type() != mt['type']:
            raise Mismatch('ctype', '%s: type(%s)=%s, model %s' % (
                where, p, arr.get_c_type(), mt['type']))
        dv = pa.default_values.get(p)
        if dv is None or float(dv) != float(mt['default']):
            raise Mismatch('default', '%s: default[%s]=%r, model %r' % (
                where, p, dv, mt['default']))
        cols[p] = pa.get(p, only_real_particles=False).reshape(
            n, mt['stride'])
    uids = cols['uid'][:, 0] if n else np.zeros(0, dtype=np.int64)
    if len(set(uids.tolist())) != n:
        raise Mismatch('uid-duplicated', '%s: uids %r' % (where,
                                                          uids.tolist()[:40]))
    if set(uids.tolist()) != set(m.rows.keys()):
        raise Mismatch('uid-set', '%s: particles %s differ from model' % (
            where, sorted(set(uids.tolist()) ^ set(m.rows))[:20]))
    for i in range(n):
        row = m.rows[int(uids[i])]
        for p in m.meta:
            a, b = cols[p][i], row[p]
            if not np.array_equal(a, b):
                raise Mismatch('values', '%s: particle uid=%d property %s = '
                               '%r, model %r' % (where, int(uids[i]), p,
                                                 a.tolist(), b.tolist()))
    if aligned:
        nr = m.num_real()
        if pa.num_real_particles != nr:
            raise Mismatch('num-real', '%s: num_real_particles=%d, model %d'
                           % (where, pa.num_real_particles, nr))
        tg = cols['tag'][:, 0]
        if n and (np.any(tg[:nr] != LOCAL) or np.any(tg[nr:] == LOCAL)):
            raise Mismatch('alignment', '%s: tags %r with %d real' % (
                where, tg.tolist()[:40], nr))
        for p in m.meta:
            real = pa.get(p)
            if len(real) != nr * m.meta[p]['stride']:
                raise Mismatch('real-slice', '%s: get(%s) has %d values for '
                               '%d real particles' % (where, p, len(real),
                                                      nr))
    if set(pa.constants.keys()) != set(m.constants.keys()):
        raise Mismatch('constants', '%s: constants %s' % (
            where, sorted(pa.constants)))
    for k, v in m.constants.items():
        if not np.array_equal(pa.constants[k].get_npy_array(), v):
            raise Mismatch('constants', '%s: constant %s = %r, model %r' % (
                where, k, pa.constants[k].get_npy_array().tolist(),
                v.tolist()))
    if sorted(pa.output_property_arrays) != sorted(m.output):
        OBSERVED['output_array_list_differs'] = \
            OBSERVED.get('output_array_list_differs', 0) + 1


MANDATORY = {'tag': dict(type='int', stride=1, default=0),
             'gid': dict(type='unsigned int', stride=1,
                         default=4294967295),
             'pid': dict(type='int', stride=1, default=0)}


def restrict_meta(m, props):
    """Properties of a clone restricted to `props`: a new ParticleArray
    always carries tag, gid and pid."""
    meta = {p: m.meta[p] for p in props}
    for p, d in MANDATORY.items():
        if p not in meta:
            meta[p] = dict(d)
    return meta


def props_or_all(props, m):
    return set(m.meta) if props is None else set(props)



def disturb_clone(clone, m2, pa, m, rng, log):
    """A clone is an independent array: removing one of its properties (or
    extending its output list) must leave the array it came from as it was."""
    before = list(pa.output_property_arrays)
    cands = [p for p in clone.output_property_arrays
             if p in m2.meta and p not in ('uid', 'tag', 'gid', 'pid', 'x',
                                           'y', 'z', 'h', 'm')]
    if cands and rng.random() < 0.6:
        p = str(cands[int(rng.integers(len(cands)))])
        log.append(('clone.remove_property', p))
        clone.remove_property(p)
    extra = [p for p in m2.meta if p not in clone.output_property_arrays and
             p in clone.properties]
    if extra and rng.random() < 0.6:
        p = str(extra[int(rng.integers(len(extra)))])
        log.append(('clone.add_output_arrays', p))
        clone.add_output_arrays([p])
    compare(pa, m, 'source array after operations on its clone')
    if list(pa.output_property_arrays) != before:
        raise Mismatch('clone-aliasing', 'operations on a clone changed the '
                       'output-array list of the array it came from: %s -> '
                       '%s' % (before, list(pa.output_property_arrays)))


class Driver(object):
    """Generates and applies one random operation to (pa, model)."""

    OPS = ['add_particles', 'remove_particles', 'remove_tagged',
           'extract', 'append_parray', 'extend_align', 'add_property',
           'remove_property', 'readd_property', 'add_constant', 'set',
           'setattr', 'retag_align', 'set_tag', 'empty_clone',
           'copy_properties', 'pickle', 'get_property_arrays',
           'output_arrays', 'ensure_properties', 'copy_over', 'set_to_zero',
           'remove_all', 'resize_shrink', 'add_property_data',
           'redefault_property']

    def __init__(self, rng, uid0):
        self.rng = rng
        self.uid = uid0
        self.removed_props = []
        self.kprop = 0

    def fresh_uids(self, k):
        u = np.arange(self.uid, self.uid + k)
        self.uid += k
        return u

    def row_order(self, pa):
        return pa.get('uid', only_real_particles=False).copy()

    def apply(self, op, pa, m, log):
        rng = self.rng
        n = m.n()
        f = getattr(self, 'op_' + op)
        return f(pa, m, n, rng, log)

    # each op returns aligned? (True if alignment is guaranteed afterwards)
    def op_add_particles(self, pa, m, n, rng, log):
        k = int(rng.integers(0, 6))
        given = {}
        names = [p for p in m.meta if p != 'uid' and rng.random() < 0.4]
        uids = self.fresh_uids(k)
        tags = rng.choice([LOCAL, LOCAL, REMOTE, GHOST], size=k)
        given['uid'] = uids
        if rng.random() < 0.7:
            given['tag'] = tags.astype(np.int32)
        for p in names:
            if p == 'tag':
                continue
            mt = m.meta[p]
            given[p] = val(rng, mt['type'], (k, mt['stride']))
        log.append(('add_particles', k, sorted(given)))
        if k == 0 and rng.random() < 0.5:
            pa.add_particles()
            return True
        pa.add_particles(**{p: (v.ravel() if hasattr(v, 'ravel') else v)
                            for p, v in given.items()})
        for i in range(k):
            g = {p: (given[p][i] if p in given else None) for p in given}
            m.rows[int(uids[i])] = m.new_row(int(uids[i]), g)
        return True

    def op_remove_particles(self, pa, m, n, rng, log):
        if n == 0:
            return True
        k = int(rng.integers(0, min(n, 6) + 1))
        idx = rng.choice(n, size=k, replace=False)
        order = self.row_order(pa)
        form = rng.choice(['list', 'array', 'LongArray'])
        log.append(('remove_particles', idx.tolist(), str(form)))
        if form == 'list':
            pa.remove_particles([int(i) for i in idx])
        elif form == 'array':
            pa.remove_particles(np.asarray(idx, dtype=np.int64))
        else:
            from cyarray.api import LongArray
            la = LongArray(k)
            la.set_data(np.asarray(idx, dtype=np.int64))
            pa.remove_particles(la)
        for i in idx:
            del m.rows[int(order[i])]
        return k > 0 or None

    def op_remove_all(self, pa, m, n, rng, log):
        if n == 0 or rng.random() < 0.7:
            return None
        log.append(('remove_particles', 'all'))
        pa.remove_particles(np.arange(n))
        m.rows.clear()
        return True

    def op_remove_tagged(self, pa, m, n, rng, log):
        t = int(rng.choice([REMOTE, GHOST, LOCAL]))
        if t == LOCAL and rng.random() < 0.8:
            t = GHOST
        log.append(('remove_tagged_particles', t))
        pa.remove_tagged_particles(t)
        had = [u for u, r in m.rows.items() if int(r['tag'][0]) == t]
        for u in had:
            del m.rows[u]
        return True if had else None

    def op_extract(self, pa, m, n, rng, log):
        k = int(rng.integers(0, min(n, 5) + 1))
        idx = rng.choice(n, size=k, replace=False) if n else np.zeros(0, int)
        order = self.row_order(pa)
        props = None
        if rng.random() < 0.5:
            props = sorted(set(['uid', 'tag'] + [
                p for p in m.meta if rng.random() < 0.5]))
        log.append(('extract_particles', idx.tolist(), props))
        before = copy.deepcopy(m.rows)
        out = pa.extract_particles(np.asarray(idx, dtype=np.int64),
                                   props=props)
        # source untouched
        m2 = m.clone_meta()
        if props is not None:
            m2.meta = restrict_meta(m, props)
            m2.output = [p for p in m.output if p in props]
        for i in idx:
            u = int(order[i])
            m2.rows[u] = {p: (before[u][p].copy() if p in props_or_all(
                props, m) else np.full(1, m2.meta[p]['default'], dtype=NPT[
                    m2.meta[p]['type']])) for p in m2.meta}
        compare(out, m2, 'result of extract_particles', aligned=True)
        disturb_clone(out, m2, pa, m, rng, log)
        return None

    def op_append_parray(self, pa, m, n, rng, log):
        from pysph.base.utils import get_particle_array
        k = int(rng.integers(0, 5))
        uids = self.fresh_uids(k)
        tags = rng.choice([LOCAL, LOCAL, REMOTE, GHOST], size=k)
        kw = dict(name='other', tag=tags.astype(np.int32),
                  x=val(rng, 'double', (k,)))
        addp = {'uid': dict(type='long', stride=1, default=0,
                            data=uids)}
        extra = None
        given = {'uid': uids, 'tag': tags, 'x': kw['x']}
        # a shared property with the same stride
        shared = [p for p in m.meta if re.match(r'^(p\d_|q\d|e\d)', p) and
                  rng.random() < 0.5]
        for p in shared:
            mt = m.meta[p]
            d = val(rng, mt['type'], (k, mt['stride']))
            addp[p] = dict(type=mt['type'], stride=mt['stride'],
                           default=mt['default'], data=d.ravel())
            given[p] = d
        if rng.random() < 0.4:
            typ = str(rng.choice(TYPES))
            stride = int(rng.choice([1, 2, 4]))
            extra = 'e%d' % self.kprop
            self.kprop += 1
            d = val(rng, typ, (k, stride))
            default = val(rng, typ, ()).item()
            addp[extra] = dict(type=typ, stride=stride, default=default,
                               data=d.ravel())
            given[extra] = d
        other = get_particle_array(**kw)
        for p, v in addp.items():
            other.add_property(p, type=v['type'], stride=v['stride'],
                               default=v['default'],
                               data=v['data'] if k else None)
        other.align_particles()
        # constants of the appended array: with update_constants=True those
        # the destination lacks are taken over, those it has stay as they are
        upd = bool(rng.random() < 0.4)
        newc = {}
        if upd:
            for cn in list(m.constants)[:2]:
                other.add_constant(cn, np.asarray(m.constants[cn]) * 0 + 9.0)
            cname = 'oc%d' % self.kprop
            self.kprop += 1
            newc[cname] = val(rng, 'double', (int(rng.integers(1, 4)),))
            other.add_constant(cname, newc[cname].copy())
        log.append(('append_parray', k, sorted(given),
                    'update_constants=%s' % upd))
        if upd:
            pa.append_parray(other, update_constants=True)
        else:
            pa.append_parray(other)
        if k == 0:
            return None            # documented early return: nothing happens
        for cn, cv in newc.items():
            m.constants[cn] = np.asarray(cv, dtype=float).copy()
        # properties of `other` missing in self are added (default from other)
        for p, arr in other.properties.items():
            if p not in m.meta:
                m.meta[p] = dict(type=arr.get_c_type(),
                                 stride=other.stride.get(p, 1),
                                 default=other.default_values[p])
                for r in m.rows.values():
                    r[p] = np.full(m.meta[p]['stride'], m.meta[p]['default'],
                                   dtype=NPT[m.meta[p]['type']])
        on = other.get_number_of_particles()
        ocols = {p: other.get(p, only_real_particles=False).reshape(
            on, other.stride.get(p, 1)) for p in other.properties}
        ou = ocols['uid'][:, 0]
        for i in range(on):
            g = {p: ocols[p][i] for p in ocols if p in m.meta}
            m.rows[int(ou[i])] = m.new_row(int(ou[i]), g)
        return True

    def op_extend_align(self, pa, m, n, rng, log):
        k = int(rng.integers(0, 5))
        log.append(('extend+set uid+align', k))
        pa.extend(k)
        uids = self.fresh_uids(k)
        if k:
            pa.get('uid', only_real_particles=False)[n:] = uids
        for u in uids:
            m.rows[int(u)] = m.new_row(int(u), {})
        if rng.random() < 0.5:
            compare(pa, m, 'after extend (not yet aligned)', aligned=False)
        pa.align_particles()
        return True

    def op_resize_shrink(self, pa, m, n, rng, log):
        # shrinking through the documented route: remove the tail
        if n < 2:
            return None
        k = int(rng.integers(1, n))
        order = self.row_order(pa)
        log.append(('remove tail', k))
        pa.remove_particles(np.arange(n - k, n))
        for i in range(n - k, n):
            del m.rows[int(order[i])]
        return True

    def _new_prop(self, rng):
        typ = str(rng.choice(TYPES))
        stride = int(rng.choice([1, 1, 2, 3, 4]))
        default = val(rng, typ, ()).item() if rng.random() < 0.7 else None
        name = 'q%d' % self.kprop
        self.kprop += 1
        return name, typ, stride, default

    def op_add_property(self, pa, m, n, rng, log):
        name, typ, stride, default = self._new_prop(rng)
        log.append(('add_property', name, typ, stride, default))
        kw = dict(type=typ, stride=stride)
        if default is not None:
            kw['default'] = default
        pa.add_property(name, **kw)
        d = 0 if default is None else default
        m.meta[name] = dict(type=typ, stride=stride, default=d)
        for r in m.rows.values():
            r[name] = np.full(stride, d, dtype=NPT[typ])
        return None

    def op_add_property_data(self, pa, m, n, rng, log):
        if n == 0:
            return None
        name, typ, stride, default = self._new_prop(rng)
        order = self.row_order(pa)
        scalar = rng.random() < 0.2
        if scalar:
            data = val(rng, typ, ()).item()
            full = np.full((n, stride), data, dtype=NPT[typ])
        else:
            full = val(rng, typ, (n, stride))
            data = full.ravel()
        log.append(('add_property with data', name, typ, stride, scalar))
        pa.add_property(name, type=typ, stride=stride, data=data,
                        default=default)
        m.meta[name] = dict(type=typ, stride=stride,
                            default=0 if default is None else default)
        for i in range(n):
            m.rows[int(order[i])][name] = full[i].copy()
        return None

    def op_remove_property(self, pa, m, n, rng, log):
        cands = [p for p in m.meta if re.match(r'^(p\d_|q\d|e\d)', p) or
                 p in ('rho', 'm', 'au')]
        if not cands:
            return None
        p = str(rng.choice(cands))
        log.append(('remove_property', p))
        pa.remove_property(p)
        self.removed_props.append((p, dict(m.meta[p])))
        del m.meta[p]
        for r in m.rows.values():
            del r[p]
        if p in m.output:
            m.output.remove(p)
        return None

    def op_readd_property(self, pa, m, n, rng, log):
        if not self.removed_props:
            return None
        p, old = self.removed_props.pop()
        if p in m.meta or not re.match(r'^(p\d_|q\d|e\d)', p):
            # default SPH properties keep their documented stride (another
            # array built by get_particle_array has them with stride 1)
            return None
        typ = str(rng.choice(TYPES))
        stride = int(rng.choice([1, 1, 2, 5]))
        default = val(rng, typ, ()).item()
        log.append(('re-add removed property', p, typ, stride, default,
                    'was', old))
        pa.add_property(p, type=typ, stride=stride, default=default)
        m.meta[p] = dict(type=typ, stride=stride, default=default)
        for r in m.rows.values():
            r[p] = np.full(stride, default, dtype=NPT[typ])
        return None

    def op_redefault_property(self, pa, m, n, rng, log):
        """add_property on a name that exists, with a new default and no
        data: values stay, particles added later carry the new default
        (zero included)."""
        cands = [p for p in m.meta if re.match(r'^(p\d_|q\d|e\d)', p)]
        if not cands:
            return None
        p = str(rng.choice(cands))
        mt = m.meta[p]
        default = (0 if rng.random() < 0.5 else
                   val(rng, mt['type'], ()).item())
        if rng.random() < 0.3:
            default = float(default) if mt['type'] == 'double' else default
        log.append(('add_property on existing name', p, 'default', default,
                    'was', mt['default']))
        kw = dict(type=mt['type'], default=default)
        if mt['stride'] != 1 or rng.random() < 0.5:
            kw['stride'] = mt['stride']
        pa.add_property(p, **kw)
        mt['default'] = default
        return None

    def op_add_constant(self, pa, m, n, rng, log):
        name = 'c%d' % self.kprop
        self.kprop += 1
        ln = int(rng.integers(1, 10))
        data = val(rng, 'double', (ln,)).astype(float)
        if ln == 1 and rng.random() < 0.5:
            log.append(('add_constant scalar', name))
            pa.add_constant(name, float(data[0]))
        else:
            log.append(('add_constant', name, ln))
            pa.add_constant(name, data)
        m.constants[name] = data.copy()
        return None

    def op_set(self, pa, m, n, rng, log):
        cands = [p for p in m.meta if p not in ('uid', 'tag')]
        p = str(rng.choice(cands))
        mt = m.meta[p]
        order = self.row_order(pa)
        full = val(rng, mt['type'], (n, mt['stride']))
        log.append(('set', p))
        pa.set(**{p: full.ravel()})
        for i in range(n):
            m.rows[int(order[i])][p] = full[i].copy()
        return None

    def op_setattr(self, pa, m, n, rng, log):
        cands = [p for p in m.meta if p not in ('uid', 'tag') and
                 m.meta[p]['stride'] == 1]
        p = str(rng.choice(cands))
        mt = m.meta[p]
        order = self.row_order(pa)
        full = val(rng, mt['type'], (n, 1))
        log.append(('attribute assignment', p))
        setattr(pa, p, full.ravel())
        for i in range(n):
            m.rows[int(order[i])][p] = full[i].copy()
        return None

    def op_retag_align(self, pa, m, n, rng, log):
        if n == 0:
            return None
        order = self.row_order(pa)
        tags = rng.choice([LOCAL, LOCAL, REMOTE, GHOST], size=n)
        log.append(('tag edit + align_particles', tags.tolist()))
        pa.get('tag', only_real_particles=False)[:] = tags
        for i in range(n):
            m.rows[int(order[i])]['tag'] = np.array([tags[i]], dtype=np.int32)
        pa.align_particles()
        return True

    def op_set_tag(self, pa, m, n, rng, log):
        if n == 0:
            return None
        from cyarray.api import LongArray
        k = int(rng.integers(1, n + 1))
        idx = np.sort(rng.choice(n, size=k, replace=False))
        t = int(rng.choice([LOCAL, REMOTE, GHOST]))
        order = self.row_order(pa)
        la = LongArray(k)
        la.set_data(idx.astype(np.int64))
        log.append(('set_tag', t, idx.tolist()))
        pa.set_tag(t, la)
        for i in idx:
            m.rows[int(order[i])]['tag'] = np.array([t], dtype=np.int32)
        pa.align_particles()
        return True

    def op_empty_clone(self, pa, m, n, rng, log):
        props = None
        if rng.random() < 0.4:
            props = sorted(set(['tag', 'uid'] + [
                p for p in m.meta if rng.random() < 0.5]))
        log.append(('empty_clone', props))
        c = pa.empty_clone(props=props)
        m2 = m.clone_meta()
        if props is not None:
            m2.meta = restrict_meta(m, props)
            m2.output = [p for p in m.output if p in props]
        compare(c, m2, 'result of empty_clone')
        disturb_clone(c, m2, pa, m, rng, log)
        return None

    def op_copy_properties(self, pa, m, n, rng, log):
        from pysph.base.utils import get_particle_array
        if n < 1:
            return None
        k = int(rng.integers(1, n + 1))
        start = int(rng.integers(0, n - k + 1))
        cands = [p for p in m.meta if p not in ('uid', 'tag')
                 and p[0] in 'pqex']
        sel = [p for p in cands if rng.random() < 0.6] or cands[:1]
        vals = {}
        src = get_particle_array(name='src', x=np.zeros(k))
        for p in sel:
            mt = m.meta[p]
            d = val(rng, mt['type'], (k, mt['stride']))
            vals[p] = d
            if p in src.properties:
                src.remove_property(p)
            src.add_property(p, type=mt['type'], stride=mt['stride'],
                             data=d.ravel())
        for p in list(src.properties):
            if p not in sel:
                src.remove_property(p)
        order = self.row_order(pa)
        log.append(('copy_properties', sel, start, start + k))
        pa.copy_properties(src, start, start + k)
        for j in range(k):
            for p in sel:
                m.rows[int(order[start + j])][p] = vals[p][j].copy()
        return None

    def op_pickle(self, pa, m, n, rng, log):
        log.append(('pickle round trip',))
        c = pickle.loads(pickle.dumps(pa))
        compare(c, m, 'pickled copy')
        return None

    def op_get_property_arrays(self, pa, m, n, rng, log):
        log.append(('get_property_arrays',))
        d = pa.get_property_arrays(all=True, only_real=False)
        for p, mt in m.meta.items():
            if p not in d or len(d[p]) != n * mt['stride']:
                raise Mismatch('get_property_arrays', 'property %s: %s' % (
                    p, 'absent' if p not in d else 'length %d' % len(d[p])))
        return None

    def op_output_arrays(self, pa, m, n, rng, log):
        sel = [p for p in m.meta if rng.random() < 0.4]
        if rng.random() < 0.5:
            log.append(('set_output_arrays', sel))
            pa.set_output_arrays(list(sel))
            m.output = list(sel)
        else:
            log.append(('add_output_arrays', sel))
            pa.add_output_arrays(list(sel))
            m.output = sorted(set(m.output) | set(sel))
        return None

    def op_ensure_properties(self, pa, m, n, rng, log):
        from pysph.base.utils import get_particle_array
        name, typ, stride, default = self._new_prop(rng)
        src = get_particle_array(name='s', x=np.zeros(2))
        src.add_property(name, type=typ, stride=stride,
                         default=0 if default is None else default)
        log.append(('ensure_properties', name, typ, stride))
        pa.ensure_properties(src, [name, 'x'])
        m.meta[name] = dict(type=typ, stride=stride,
                            default=0 if default is None else default)
        for r in m.rows.values():
            r[name] = np.full(stride, m.meta[name]['default'],
                              dtype=NPT[typ])
        return None

    def _double_pairs(self, m):
        ds = [p for p in m.meta if m.meta[p]['type'] == 'double']
        out = []
        for a in ds:
            for b in ds:
                if a != b and m.meta[a]['stride'] == m.meta[b]['stride']:
                    out.append((a, b))
        return out

    def op_copy_over(self, pa, m, n, rng, log):
        pairs = self._double_pairs(m)
        if not pairs:
            return None
        a, b = pairs[int(rng.integers(len(pairs)))]
        log.append(('copy_over_properties', a, b))
        pa.copy_over_properties({a: b})
        for r in m.rows.values():
            r[b] = r[a].copy()
        return None

    def op_set_to_zero(self, pa, m, n, rng, log):
        ds = [p for p in m.meta if m.meta[p]['type'] == 'double'
              and p != 'x']
        if not ds:
            return None
        p = str(rng.choice(ds))
        log.append(('set_to_zero', p))
        pa.set_to_zero([p])
        for r in m.rows.values():
            r[p] = np.zeros(m.meta[p]['stride'])
        return None


def run_sequence(seed, idx, nops_max, mon):
    rng = np.random.default_rng(common.case_seed(PROP, seed, idx))
    n0 = int(rng.choice([0, 0, 1, 3, 8, 20]))
    pa, meta, uids, tags, props = make_pa(rng, 'a', n0, 1000)
    m = build_model(pa)
    log = [('create', n0, {k: (v['type'], v['stride']) for k, v in
                           meta.items()})]
    drv = Driver(rng, 5000)
    try:
        compare(pa, m, 'after construction')
    except Mismatch as e:
        return log, ('construction:' + e.key, e.what)
    nops = int(rng.integers(5, nops_max + 1))
    used = set()
    for k in range(nops):
        op = str(rng.choice(Driver.OPS))
        try:
            aligned = drv.apply(op, pa, m, log)
        except Mismatch as e:
            return log, (op + ':' + e.key, e.what)
        except Exception as e:
            return log, (op + ':raises:' + type(e).__name__,
                         '%s raised %r' % (op, e))
        used.add(op)
        mon['ops'] = mon.get('ops', 0) + 1
        mon['op_' + op] = mon.get('op_' + op, 0) + 1
        try:
            # alignment is asserted after operations that promise it, and
            # sticks until an operation that may break it
            compare(pa, m, 'after op %d (%s)' % (k, log[-1][0]),
                    aligned=bool(aligned) or (aligned is None and
                                              m.num_real() == pa.num_real_particles
                                              and _is_aligned(pa)))
        except Mismatch as e:
            return log, (op + ':' + e.key, e.what)
    return log, None


def _is_aligned(pa):
    tg = pa.get('tag', only_real_particles=False)
    nr = pa.num_real_particles
    return not (np.any(tg[:nr] != LOCAL) or np.any(tg[nr:] == LOCAL))


def work(item):
    res = dict(evaluations=0, distinct=[], violations=[], samples=[],
               counters={}, sets={})
    rng_idx = [item['replay_idx']] if 'replay_idx' in item else \
        range(item['lo'], item['hi'])
    opsets = set()
    for idx in rng_idx:
        log, bad = run_sequence(item['seed'], idx, item.get('nops', 40),
                                res['counters'])
        res['evaluations'] += 1
        if len(log) > 5:
            res['distinct'].append(common.digest([str(x) for x in log]))
        if bad:
            if sum(1 for v in res['violations'] if v['key'] == bad[0]) < 2:
                res['violations'].append(dict(
                    key=bad[0], what=bad[1] + ' | last ops: %s' % (
                        [str(x)[:120] for x in log[-4:]],),
                    case=dict(idx=idx, seed=item['seed'],
                              nops=item.get('nops', 40))))
            res['counters']['violating_sequences'] = \
                res['counters'].get('violating_sequences', 0) + 1
        if idx % 300 == 0 and len(res['samples']) < 2:
            res['samples'].append([str(x)[:160] for x in log[:25]])
    for k, v in OBSERVED.items():
        res['counters']['observed_' + k] = v
    OBSERVED.clear()
    return res


def run(tier):
    T = common.Timer()
    n = 640 if tier == 'quick' else 20000
    nops = 40 if tier == 'quick' else 60
    items = [dict(seed=common.seed(), lo=a, hi=b, nops=nops, flavour='plain')
             for a, b in harness.chunks(n, 40 if tier == 'quick' else 250)]
    na = 160 if tier == 'quick' else 3000
    items += [dict(seed=common.seed() + 31, lo=a, hi=b, nops=nops,
                   flavour='asan')
              for a, b in harness.chunks(na, 20 if tier == 'quick' else 100)]
    m = harness.execute('checks.c06', items, timeout=3000)
    v = common.Verdict(PROP)
    cov = harness.san_violations(m, v)
    missing = [o for o in Driver.OPS if m.counters.get('op_' + o, 0) < 5]
    if missing:
        v.inconclusive_because('operations exercised fewer than 5 times: %s'
                               % missing)
    return harness.finish(
        PROP, tier, 'exploration', m, v, T,
        rule='case = a random sequence of 5-40 (60) public ParticleArray '
             'operations (25 kinds: add / remove / remove tagged / extract / '
             'append_parray / extend+align / add, remove, re-add property / '
             'constants / set / attribute assignment / retag+align / set_tag '
             '/ clone / copy_properties / pickle / output arrays / ...) on an '
             'array with typed and strided properties and mixed tags; after '
             'every operation the real array is compared with a record-list '
             'model keyed by a unique uid; distinct = digest of the op log',
        assumptions=['only valid arguments are generated',
                     'order of particles is not asserted (removal swaps, '
                     'alignment), only uid-keyed contents and the alignment '
                     'postcondition',
                     'alignment is asserted after the operations that '
                     'promise it'],
        extra_cov=cov, min_evaluations=100, min_distinct=50)


def replay(path):
    with open(path) as fp:
        r = json.load(fp)
    c = r['case']
    from vlib import runner
    res = runner.run_one('checks.c06', dict(replay_idx=c['idx'],
                                            seed=c['seed'], nops=c['nops']))
    print(json.dumps(res, indent=1)[:5000])
    return 1 if res.get('violations') else 0
