"""C05 - results do not depend on neighbour algorithm, cache, threads or
re-ordering.

Every work item is one complete run of a small simulation through the real
Application front end (Application.run(argv)) in its own process, with one
combination of --nnps / --cache-nnps / --openmp + thread count / schedule /
--reorder-freq / --sort-gids.  The worker returns the final state of every
particle array ordered by the particles' unique ids.  The driver compares
states: configurations with sorted neighbours and no re-ordering must be bit
for bit equal to the reference run, all others equal to it up to summation
order, and twin runs with identical options bit for bit equal to each other.
A slice runs with several OpenMP threads under ThreadSanitizer."""
import base64
import hashlib
import json
import os
import tempfile

import numpy as np

from vlib import common, harness

PROP = 'C05'
NNPS = ['ll', 'box', 'sh', 'esh', 'ci', 'sfc', 'tree', 'comp_tree',
        'strat_hash', 'strat_sfc']
PROBLEMS = ['drop', 'tank', 'periodic']
REL_TOL = 1e-7


# ================================================================== worker
def work(item):
    import shutil
    from vlib import apps
    from pysph.base import omp_threads
    tmp = tempfile.mkdtemp(prefix='c05_', dir=os.environ.get('VERIF_TMP'))
    try:
        if item.get('threads'):
            omp_threads.set_number_of_threads(int(item['threads']))
        App = apps.make_app(item['problem'])
        app = App(fname='c05', output_dir=tmp)
        argv = ['--disable-output', '--directory', tmp] + list(item['args'])
        import contextlib
        import io
        buf = io.StringIO()
        try:
            with contextlib.redirect_stdout(buf):
                app.run(argv)
        except NotImplementedError as e:
            # the front end accepted the options and the run then refused
            return dict(evaluations=1, distinct=[item['name']],
                        name=item['name'], refused=repr(e),
                        counters=dict(runs=1, refused_runs=1))
        except BaseException as e:
            raise RuntimeError('Application.run failed: %r\n%s' % (
                e, buf.getvalue()[-3000:]))
        from compyle.config import get_config
        state = {}
        moved = 0
        for pa in app.particles:
            n = pa.get_number_of_particles(real=True)
            uid = pa.get('uid', only_real_particles=True)
            order = np.argsort(uid, kind='stable')
            moved += int((order != np.arange(n)).sum())
            props = sorted(p for p in pa.properties if p not in (
                'tag', 'pid', 'gid'))
            cols = []
            for p in props:
                st = pa.stride.get(p, 1)
                a = np.asarray(pa.get(p, only_real_particles=True),
                               dtype=float).reshape(n, st)[order]
                cols.append(a.reshape(n * st))
            blob = np.concatenate(cols) if cols else np.zeros(0)
            state[pa.name] = dict(
                n=n, props=props,
                strides=[pa.stride.get(p, 1) for p in props],
                sha=hashlib.sha1(blob.tobytes()).hexdigest(),
                data=base64.b64encode(blob.tobytes()).decode())
        info = dict(
            nnps=type(app.nnps).__name__, steps=int(app.solver.count),
            threads=int(omp_threads.get_number_of_threads()),
            openmp=bool(get_config().use_openmp),
            reorder_freq=int(app.solver.reorder_freq),
            displaced=moved,
            cache=bool(item.get('expect_cache')),
            hashseed=os.environ.get('PYTHONHASHSEED'),
        )
        return dict(evaluations=1, distinct=[item['name']], state=state,
                    info=info, name=item['name'],
                    counters=dict(runs=1, steps=info['steps'],
                                  displaced_rows=moved))
    finally:
        shutil.rmtree(tmp, ignore_errors=True)


# ================================================================== driver
def configs(tier, seed):
    """-> list of (name, args, threads, klass, twin_of) per problem.
    klass: 'ref' | 'bit' (must equal ref bit for bit) | 'tol'."""
    out = [('ref', ['--nnps', 'll', '--no-openmp', '--sort-gids'], 1,
            'ref', None)]
    quick = tier == 'quick'
    rot = seed % 3
    for i, nn in enumerate(NNPS):
        for cache in (False, True):
            nm = 'sorted/%s/%s' % (nn, 'cache' if cache else 'nocache')
            a = ['--nnps', nn, '--sort-gids', '--no-openmp'] + (
                ['--cache-nnps'] if cache else [])
            if nm == 'sorted/ll/nocache':
                continue
            out.append((nm, a, 1, 'bit', None))
    threads = [2, 5, 16] if quick else [1, 2, 3, 4, 5, 7, 8, 16]
    for t in threads:
        for j, nn in enumerate(['ll', 'sh', 'tree'] if not quick else
                               [['ll', 'sh', 'ci'][(t + rot) % 3]]):
            for sched in (['dynamic,64'] if quick else
                          ['dynamic,64', 'static', 'dynamic,1', 'guided']):
                cache = bool((t + j) % 2)
                nm = 'sorted/%s/omp%d/%s/%s' % (
                    nn, t, sched, 'cache' if cache else 'nocache')
                a = ['--nnps', nn, '--sort-gids', '--openmp',
                     '--omp-schedule', sched] + (
                    ['--cache-nnps'] if cache else [])
                out.append((nm, a, t, 'bit', None))
    # every neighbour algorithm is also queried from several threads at once
    tl = [2, 3, 4, 5, 7, 8, 16]
    for i, nn in enumerate(NNPS):
        for cache in (False, True):
            if quick and cache != bool((i + seed) % 2):
                continue
            t = tl[(i + seed + int(cache)) % len(tl)]
            nm = 'sorted/%s/omp%d/%s/%s' % (
                nn, t, 'dynamic,64', 'cache' if cache else 'nocache')
            if any(c[0] == nm for c in out):
                continue
            out.append((nm, ['--nnps', nn, '--sort-gids', '--openmp',
                             '--omp-schedule', 'dynamic,64'] + (
                ['--cache-nnps'] if cache else []), t, 'bit', None))
    for i, nn in enumerate(NNPS):
        for cache in (False, True):
            if quick and cache != bool((i + seed + 1) % 2):
                continue
            nm = 'unsorted/%s/%s' % (nn, 'cache' if cache else 'nocache')
            a = ['--nnps', nn, '--no-openmp'] + (
                ['--cache-nnps'] if cache else [])
            out.append((nm, a, 1, 'tol', None))
    out.append(('unsorted/ll/omp4', ['--nnps', 'll', '--openmp'], 4, 'tol',
                None))
    for f in ([1, 7] if quick else [1, 2, 3, 7, 50]):
        for nn in (['ll', NNPS[(seed + f) % len(NNPS)]] if quick else NNPS):
            out.append(('reorder%d/%s' % (f, nn),
                        ['--nnps', nn, '--no-openmp', '--reorder-freq',
                         str(f), '--sort-gids'], 1, 'tol', None))
        out.append(('reorder%d/ll/omp3' % f,
                    ['--nnps', 'll', '--openmp', '--reorder-freq', str(f)],
                    3, 'tol', None))
    # valid gids: neighbours are then sorted by gid, which does not change
    # when particles are re-ordered, so runs that differ only in the
    # neighbour algorithm stay bit-identical even with re-ordering
    for f in ([1] if quick else [1, 3]):
        grp = 'gids-reorder%d' % f
        for nn in (['ll', 'ci', 'tree', 'comp_tree', 'box'] if quick else
                   ['ll', 'box', 'ci', 'tree', 'comp_tree']):
            out.append(('%s/%s' % (grp, nn),
                        ['--nnps', nn, '--sort-gids', '--valid-gids',
                         '--reorder-freq', str(f), '--no-openmp'], 1,
                        'bitgrp', '%s/ll' % grp))
    # twins: identical options, must be bit-identical to their first run
    for nm in ['ref', 'unsorted/ll/omp4', 'reorder1/ll/omp3']:
        src = next(c for c in out if c[0] == nm)
        out.append((nm + '#again', src[1], src[2], 'twin', nm))
    return out


def decode(st):
    blob = np.frombuffer(base64.b64decode(st['data']), dtype=float)
    out = {}
    k = 0
    for p, s in zip(st['props'], st['strides']):
        out[p] = blob[k:k + st['n'] * s]
        k += st['n'] * s
    return out


def compare(a, b, bit):
    """-> None or (array, prop, detail)."""
    for arr in sorted(a):
        if arr not in b:
            return arr, '-', 'array missing'
        if a[arr]['n'] != b[arr]['n']:
            return arr, '-', '%d vs %d particles' % (a[arr]['n'], b[arr]['n'])
        if a[arr]['sha'] == b[arr]['sha']:
            continue
        da, db = decode(a[arr]), decode(b[arr])
        for p in a[arr]['props']:
            x, y = da[p], db.get(p)
            if y is None or x.shape != y.shape:
                return arr, p, 'property missing or reshaped'
            same = (x == y) | (np.isnan(x) & np.isnan(y))
            if same.all():
                continue
            if bit:
                i = int(np.nonzero(~same)[0][0])
                return arr, p, ('entry %d: %r vs %r (%d of %d entries differ '
                                'in their bits, max |diff| %.3g)' % (
                                    i, x[i], y[i], int((~same).sum()),
                                    len(x), float(np.nanmax(np.abs(x - y)))))
            scale = float(np.nanmax(np.abs(y))) + 1e-300
            bad = ~same & ~(np.abs(x - y) <= REL_TOL * scale)
            if bad.any():
                i = int(np.nonzero(bad)[0][0])
                return arr, p, ('entry %d: %r vs %r; %d of %d entries differ '
                                'by more than %g of the property scale %.3g '
                                '(max |diff| %.3g)' % (
                                    i, x[i], y[i], int(bad.sum()), len(x),
                                    REL_TOL, scale,
                                    float(np.nanmax(np.abs(x - y)))))
    return None


def family_of(name):
    """Mechanism key of a configuration: which option made the difference."""
    parts = name.split('#')[0].split('/')
    kind = parts[0]
    nn = parts[1] if len(parts) > 1 else 'll'
    return kind.rstrip('0123456789'), nn


def run(tier):
    T = common.Timer()
    seed = common.seed()
    items = []
    probs = PROBLEMS
    for pr in probs:
        for (nm, args, threads, klass, twin) in configs(tier, seed):
            # every run is its own process with its own string-hash seed
            # (a user's runs have random ones): nothing may depend on it
            hs = 1 + (common.case_seed(PROP, seed, pr, nm) % 4000)
            items.append(dict(problem=pr, name='%s:%s' % (pr, nm), args=args,
                              threads=threads, klass=klass, twin=twin,
                              flavour='plain', timeout=1800,
                              env={'PYTHONHASHSEED': str(hs)},
                              worker_key='%s:%s' % (pr, nm)))
    # several OpenMP threads under ThreadSanitizer
    ts = [('tank', 4), ('periodic', 3)] if tier == 'quick' else \
        [('tank', 4), ('periodic', 3), ('drop', 8), ('tank', 2)]
    for pr, t in ts:
        items.append(dict(problem=pr, name='%s:tsan/omp%d' % (pr, t),
                          args=['--nnps', 'll', '--openmp', '--sort-gids',
                                '--omp-schedule', 'dynamic,4',
                                '--reorder-freq', '5'],
                          threads=t, klass='tsan', twin=None,
                          flavour='tsan', timeout=3000,
                          worker_key='%s:tsan%d' % (pr, t)))
    m = harness.Merge()
    from vlib import runner
    m.selfcheck = {'tsan': runner.sanitizer_selfcheck('tsan')}
    res = runner.run_items('checks.c05', items, timeout=3000)
    states = {}
    infos = {}
    refused = {}
    for it, r in zip(items, res):
        st = r.pop('state', None)
        info = r.pop('info', None)
        if r.get('refused'):
            refused[it['name']] = r['refused']
        m.add(it, r)
        if st is not None:
            states[it['name']] = st
            infos[it['name']] = info
    v = common.Verdict(PROP)
    cov = harness.san_violations(m, v)
    compared = dict(bit=0, tol=0, twin=0)
    observed = dict(nnps=set(), threads=set(), hashseeds=set(),
                    reordered_runs=0,
                    openmp_runs=0, cached_runs=0)
    for it in items:
        nm = it['name']
        if nm in refused:
            kind, nn = family_of(nm.split(':', 1)[1])
            v.violation('%s:nnps=%s:not-implemented' % (kind, nn),
                        '%s: the run is refused with %s' % (nm, refused[nm]),
                        dict(item={k: it[k] for k in (
                            'problem', 'name', 'args', 'threads')}))
            continue
        if nm not in states:
            continue
        info = infos[nm]
        observed['nnps'].add(info['nnps'])
        observed['threads'].add(info['threads'])
        observed['hashseeds'].add(info.get('hashseed'))
        observed['openmp_runs'] += int(info['openmp'])
        observed['reordered_runs'] += int(info['displaced'] > 0)
        # the option must have had its effect, else the run shows nothing
        if it['threads'] and info['openmp'] and \
                info['threads'] != it['threads']:
            v.inconclusive_because('%s ran with %d threads, not %d' % (
                nm, info['threads'], it['threads']))
        if it['klass'] == 'tsan':
            continue
        pr = it['problem']
        ref = states.get('%s:ref' % pr)
        if ref is None:
            continue
        if it['klass'] == 'ref':
            continue
        if it['klass'] == 'twin':
            other = states.get('%s:%s' % (pr, it['twin']))
            if other is None:
                continue
            d = compare(states[nm], other, bit=True)
            compared['twin'] += 1
            if d:
                v.violation('repeat:%s' % '/'.join(family_of(it['twin'])),
                            '%s: two runs with identical options differ: '
                            'array %s property %s: %s' % (nm, d[0], d[1],
                                                          d[2]),
                            dict(item=it, info=info))
            continue
        if it['klass'] == 'bitgrp':
            other = states.get('%s:%s' % (pr, it['twin']))
            if other is None or nm.endswith(it['twin']):
                continue
            d = compare(states[nm], other, bit=True)
            compared['bit'] += 1
            if d:
                kind, nn = family_of(nm.split(':', 1)[1])
                v.violation('sorted-by-gid:nnps=%s' % nn,
                            '%s (%s) vs the ll run with the same options: '
                            'array %s property %s: %s' % (
                                nm, info['nnps'], d[0], d[1], d[2]),
                            dict(item={k: it[k] for k in (
                                'problem', 'name', 'args', 'threads')},
                                info=info))
            continue
        bit = it['klass'] == 'bit'
        d = compare(states[nm], ref, bit=bit)
        compared['bit' if bit else 'tol'] += 1
        if d:
            kind, nn = family_of(nm.split(':', 1)[1])
            multi = 'multi-array' if pr == 'tank' else (
                'periodic' if pr == 'periodic' else 'single-array')
            # mechanism: the neighbour algorithm if it is not the
            # reference one, else the option that differs
            serial = states.get('%s:sorted/%s/nocache' % (pr, nn))
            if nn != 'll' and '/omp' in nm and serial is not None and \
                    compare(serial, ref, bit=True) is None:
                # the same algorithm agrees when run serially
                mech = 'openmp:nnps=%s' % nn
            elif nn != 'll' and nm.endswith('/cache') and \
                    serial is not None and \
                    compare(serial, ref, bit=True) is None:
                # ... and agrees without the cache
                mech = 'cache:nnps=%s' % nn
            elif nn != 'll':
                mech = 'nnps=%s' % nn
            elif '/omp' in nm:
                mech = 'openmp'
            elif kind == 'reorder':
                mech = 'reorder'
            else:
                mech = 'cache' if nm.endswith('/cache') else kind
            v.violation('%s:%s' % (mech, multi),
                        '%s (%s, %d threads) vs reference run: array %s '
                        'property %s: %s' % (nm, info['nnps'],
                                             info['threads'], d[0], d[1],
                                             d[2]),
                        dict(item={k: it[k] for k in (
                            'problem', 'name', 'args', 'threads', 'klass')},
                            info=info))
    if len(observed['nnps']) < len(NNPS):
        v.inconclusive_because('only %d NNPS classes were selected: %s' % (
            len(observed['nnps']), sorted(observed['nnps'])))
    if observed['reordered_runs'] < 2:
        v.inconclusive_because('re-ordering never displaced a particle')
    if len(observed['hashseeds']) < 10:
        v.inconclusive_because('only %d distinct PYTHONHASHSEED values' %
                               len(observed['hashseeds']))
    if len(observed['threads']) < 3:
        v.inconclusive_because('thread counts seen: %s' % sorted(
            observed['threads']))
    cov.update(compared_bit_identical=compared['bit'],
               compared_to_tolerance=compared['tol'],
               compared_twins=compared['twin'],
               nnps_classes=sorted(observed['nnps']),
               thread_counts=sorted(observed['threads']),
               distinct_hash_seeds=len(observed['hashseeds']),
               runs_with_openmp=observed['openmp_runs'],
               runs_where_reordering_displaced_rows=observed[
                   'reordered_runs'])
    return harness.finish(
        PROP, tier, 'exploration', m, v, T,
        rule='three problems (free-surface drop with one array; tank with '
             'two fluids and a wall; doubly periodic vortex) run through '
             'Application.run(argv) in separate processes for 20-25 steps '
             'with: every --nnps value x cache on/off with --sort-gids '
             '(bit-identical to the ll reference), OpenMP with 1-16 threads '
             'x schedules x NNPS with --sort-gids (bit-identical), every '
             '--nnps unsorted, OpenMP unsorted, --reorder-freq 1..50 with '
             'and without OpenMP (equal to 1e-7 of each property\'s scale, '
             'particles matched by unique id), and twins with identical '
             'options (bit-identical); plus OpenMP runs with 2-8 threads '
             'under ThreadSanitizer with the generated module instrumented',
        assumptions=['every run is a fresh process with its own PYTHONHASHSEED',
                     'fixed time step (adaptive stepping off) so that all '
                     'configurations take the same steps',
                     'divergence over 20-25 steps from summation order '
                     'stays below 1e-7 relative; a lost or extra neighbour '
                     'is orders of magnitude above it',
                     'thread interleavings are those the OS produced on '
                     'these runs; TSan reports are the race oracle'],
        extra_cov=cov, min_evaluations=30, min_distinct=20)


def replay(path):
    with open(path) as fp:
        r = json.load(fp)
    print(json.dumps(r, indent=1)[:4000])
    return 1
