"""C14 - interpolation of particle data obeys its defining formulas.

The real Interpolator (and SPHEvaluator) is driven through random histories
(interpolate, new target points, new source arrays, moved particles + update)
over random particle sets; after every interpolate() the returned field is
compared with the defining sums evaluated by brute force in numpy with the
Python kernel over every source particle (periodic images included), and with
the method's characteristic guarantees (Shepard: constants reproduced, result
within the range of contributing values, zero where nothing is in range;
order1: linear fields and their gradients reproduced where the moment matrix
is well conditioned)."""
import json
import math

import numpy as np

from vlib import common, harness, evalkit

PROP = 'C14'
METHODS = ['shepard', 'sph', 'order1', 'splash', 'splash_norm']


# =================================================================== oracle
def images(pos, cols, box, dim, periodic, reach, lo, hi):
    """Source rows plus their periodic images that can matter for targets in
    [lo, hi] with the given reach."""
    if not periodic:
        return pos, cols
    shifts = [np.zeros(3)]
    for ax in range(dim):
        if periodic[ax]:
            L = box[ax][1] - box[ax][0]
            new = []
            for s in shifts:
                for k in (-1, 0, 1):
                    t = s.copy()
                    t[ax] += k * L
                    new.append(t)
            shifts = new
    P, C = [], {k: [] for k in cols}
    for s in shifts:
        q = pos + s
        keep = np.ones(len(q), bool)
        for ax in range(dim):
            keep &= (q[:, ax] > lo[ax] - reach) & (q[:, ax] < hi[ax] + reach)
        P.append(q[keep])
        for k in cols:
            C[k].append(cols[k][keep])
    return np.concatenate(P), {k: np.concatenate(v) for k, v in C.items()}


def kernel_sums(K, tpos, th, spos, sh, mode, want_grad=False):
    """W[i, j] (and grad[i, j, :]) with the smoothing length of `mode`:
    'ij' average, 'i' target, 'j' source."""
    nt, ns = len(tpos), len(spos)
    W = np.zeros((nt, ns))
    G = np.zeros((nt, ns, 3)) if want_grad else None
    g = [0.0, 0.0, 0.0]
    for i in range(nt):
        d = tpos[i] - spos
        r = np.sqrt((d * d).sum(axis=1))
        if mode == 'ij':
            h = 0.5 * (th[i] + sh)
        elif mode == 'i':
            h = np.full(ns, th[i])
        else:
            h = sh
        near = np.nonzero(r < 4.0 * h)[0]      # every shipped kernel: <= 3h
        for j in near:
            x = [float(d[j, 0]), float(d[j, 1]), float(d[j, 2])]
            W[i, j] = K.kernel(x, float(r[j]), float(h[j]))
            if want_grad:
                K.gradient(x, float(r[j]), float(h[j]), g)
                G[i, j] = g
    return W, G


def defining(method, K, dim, tpos, th, srcs, fname):
    """-> dict(value, scale, extra) from the defining formula of `method`.
    srcs: list of dict(pos, h, m, rho, f)."""
    pos = np.concatenate([s['pos'] for s in srcs])
    h = np.concatenate([s['h'] for s in srcs])
    V = np.concatenate([s['m'] / s['rho'] for s in srcs])
    f = np.concatenate([s['f'] for s in srcs])
    out = {}
    if method == 'shepard':
        W, _ = kernel_sums(K, tpos, th, pos, h, 'ij')
        den = W.sum(axis=1)
        num = W @ f
        ok = den > 1e-12
        val = np.where(ok, num / np.where(ok, den, 1.0), num)
        scale = np.where(ok, (np.abs(W) @ np.abs(f)) / np.where(ok, den, 1.0),
                         np.abs(W) @ np.abs(f)) + 1e-300
        contrib = W != 0
        lo = np.array([f[c].min() if c.any() else 0.0 for c in contrib])
        hi = np.array([f[c].max() if c.any() else 0.0 for c in contrib])
        # a weighted mean is a convex combination only where no weight is
        # negative (SuperGaussian has a negative lobe)
        out.update(value=val, scale=scale, in_range=ok, lo=lo, hi=hi,
                   convex=ok & (W >= 0).all(axis=1),
                   nothing=~contrib.any(axis=1))
    elif method == 'sph':
        W, _ = kernel_sums(K, tpos, th, pos, h, 'ij')
        out.update(value=W @ (V * f),
                   scale=np.abs(W) @ np.abs(V * f) + 1e-300)
    elif method == 'splash':
        W, _ = kernel_sums(K, tpos, th, pos, h, 'i')
        out.update(value=W @ (V * f),
                   scale=np.abs(W) @ np.abs(V * f) + 1e-300)
    elif method == 'splash_norm':
        W, _ = kernel_sums(K, tpos, th, pos, h, 'j')
        den = W @ V
        num = W @ (V * f)
        ok = den > 1e-12
        out.update(value=np.where(ok, num / np.where(ok, den, 1.0), num),
                   scale=np.where(ok, (np.abs(W) @ np.abs(V * f)) /
                                  np.where(ok, den, 1.0),
                                  np.abs(W) @ np.abs(V * f)) + 1e-300,
                   in_range=ok)
    else:
        W, G = kernel_sums(K, tpos, th, pos, h, 'ij', want_grad=True)
        n = dim + 1
        nt = len(tpos)
        val = np.full((nt, 4), np.nan)
        cond = np.full(nt, np.inf)
        for i in range(nt):
            d = tpos[i] - pos           # XIJ
            M = np.zeros((4, 4))
            b = np.zeros(4)
            M[0, 0] = (W[i] * V).sum()
            for a in range(3):
                M[0, a + 1] = (-d[:, a] * W[i] * V).sum()
                M[a + 1, 0] = (G[i, :, a] * V).sum()
                for c in range(3):
                    M[a + 1, c + 1] = (-d[:, c] * G[i, :, a] * V).sum()
            b[0] = (f * W[i] * V).sum()
            for a in range(3):
                b[a + 1] = (f * G[i, :, a] * V).sum()
            Mn = M[:n, :n]
            if not np.isfinite(Mn).all() or np.abs(Mn).sum() == 0:
                continue
            # conditioning of the row-equilibrated system
            s = np.abs(Mn).max(axis=1)
            if (s == 0).any():
                continue
            cnd = np.linalg.cond(Mn / s[:, None])
            cond[i] = cnd
            if cnd < 1e8:
                sol = np.linalg.solve(Mn, b[:n])
                val[i, :n] = sol
                val[i, n:] = 0.0
        out.update(value=val, cond=cond)
    return out


# ================================================================= scenario
def make_sources(rng, dim, narr, periodic, box, variable, tag=''):
    from pysph.base.utils import get_particle_array
    pas = []
    for a in range(narr):
        n = int(rng.integers(12, 60))
        pos = np.zeros((n, 3))
        for ax in range(dim):
            lo, hi = box[ax]
            pos[:, ax] = rng.uniform(lo, hi, size=n)
        dx = ((box[0][1] - box[0][0]) ** dim / n) ** (1.0 / dim)
        if narr > 1 and rng.random() < 0.5 and not periodic:
            # arrays side by side: the boundary between arrays matters
            pos[:, 0] = box[0][0] + (pos[:, 0] - box[0][0] + a *
                                     (box[0][1] - box[0][0])) / narr
        h = dx * (rng.uniform(0.9, 1.8, size=n) if variable else
                  np.full(n, rng.uniform(1.0, 1.5)))
        m = dx ** dim * (rng.uniform(0.5, 1.5, size=n) if variable else
                         np.ones(n))
        rho = rng.uniform(0.6, 1.6, size=n) if variable else np.ones(n)
        pa = get_particle_array(name='s%d%s' % (a, tag), x=pos[:, 0],
                                y=pos[:, 1], z=pos[:, 2], h=h, m=m, rho=rho,
                                p=rng.normal(size=n),
                                q=rng.uniform(1.0, 2.0, size=n))
        if a == 0 or rng.random() < 0.7:
            pa.add_property('only0', data=rng.normal(size=n))
        pas.append(pa)
    return pas


def set_fields(rng, pas, lin):
    """lin = (a, b): writes the linear field a + b.x into `lf` and a constant
    into `cf`."""
    a, b = lin
    for pa in pas:
        x, y, z = pa.get('x', 'y', 'z', only_real_particles=True)
        v = a + b[0] * x + b[1] * y + b[2] * z
        if 'lf' not in pa.properties:
            pa.add_property('lf')
            pa.add_property('cf')
        pa.get('lf', only_real_particles=True)[:] = v
        pa.get('cf', only_real_particles=True)[:] = 2.75


def snapshot_sources(pas, prop):
    out = []
    for pa in pas:
        n = pa.get_number_of_particles(real=True)
        g = lambda p: pa.get(p, only_real_particles=True).copy()  # noqa
        out.append(dict(pos=np.stack([g('x'), g('y'), g('z')], axis=1),
                        h=g('h'), m=g('m'), rho=g('rho'),
                        f=g(prop) if prop in pa.properties else np.zeros(n)))
    return out


def run_history(seed, k, mon):
    from pysph.tools.interpolator import Interpolator
    from pysph.base.nnps import DomainManager
    rng = np.random.default_rng(common.case_seed(PROP, seed, k))
    dim = int(rng.integers(1, 4))
    method = METHODS[k % 5]
    names = [n for n in evalkit.kernels() if ('1D' in n) == (dim == 1) or
             n in ('CubicSpline', 'Gaussian', 'QuinticSpline',
                   'SuperGaussian')]
    kname = str(rng.choice(names)) if rng.random() < 0.8 else None
    narr = int(rng.integers(1, 4))
    periodic = None
    if rng.random() < 0.35:
        periodic = [bool(rng.random() < 0.7) for _ in range(dim)]
        if not any(periodic):
            periodic[0] = True
    # the unit of length is the user's: millimetres or kilometres (kernel
    # sums then are ~1e6 or ~1e-9 in 3-d; the documented mean does not care)
    L = 1.0 if method == 'order1' else [1.0, 1.0, 0.01, 1.0, 2000.0][(k // 5) % 5]
    box = [(0.0, L * float(rng.uniform(0.8, 1.5))) for _ in range(3)]
    variable = bool(rng.random() < 0.75)
    pas = make_sources(rng, dim, narr, periodic, box, variable)
    lin = (float(rng.normal()), [float(rng.normal()) if ax < dim else 0.0
                                 for ax in range(3)])
    set_fields(rng, pas, lin)
    K = evalkit.kernel_for(kname, dim) if kname else None
    if kname and K is None:
        kname, K = None, None
    dm = None
    if periodic:
        kw = {}
        for ax, nm in enumerate('xyz'[:dim]):
            kw[nm + 'min'], kw[nm + 'max'] = box[ax]
            kw['periodic_in_' + nm] = periodic[ax]
        dm = DomainManager(**kw)

    def targets(n):
        t = np.zeros((n, 3))
        for ax in range(dim):
            lo, hi = box[ax]
            pad = 0.0 if (periodic and periodic[ax]) else 0.25 * (hi - lo)
            t[:, ax] = rng.uniform(lo - pad, hi + pad, size=n)
            if periodic and periodic[ax]:
                t[:, ax] = np.clip(t[:, ax], lo + 1e-6 * L, hi - 1e-6 * L)
        # a few points far from every particle (along a non-periodic axis)
        free = [ax for ax in range(dim) if not (periodic and periodic[ax])]
        if free and n > 3:
            far = rng.random(n) < 0.1
            t[far, free[0]] += 3.0 * (box[free[0]][1] - box[free[0]][0])
        if rng.random() < 0.15 and L >= 1.0:
            # coordinates handed over as integers (np.mgrid[0:3, 0:3]...)
            t = np.round(t).astype(np.int64)
            for ax in range(dim):
                if periodic and periodic[ax]:
                    lo, hi = box[ax]
                    t[:, ax] = np.clip(t[:, ax], int(np.ceil(lo + 1e-6)),
                                       int(np.floor(hi - 1e-6)))
            desc['int_targets'] = desc.get('int_targets', 0) + 1
        return t

    given = {}

    def shaped(t):
        # the caller's arrays: flat, or a 2-d block in C order, in Fortran
        # order, as a transposed view, or x and y with different layouts
        n = len(t)
        cols = [t[:, 0], t[:, 1], t[:, 2]]
        form = 'flat'
        a = next((a_ for a_ in (2, 3, 4, 5) if n % a_ == 0 and n // a_ > 1),
                 None)
        r = rng.random()
        if a is not None and r < 0.5:
            b = n // a
            cols = [c.reshape(a, b).copy() for c in cols]
            if r < 0.15:
                form = '2d-C'
            elif r < 0.3:
                form = '2d-F'
                cols = [np.asfortranarray(c) for c in cols]
            elif r < 0.4:
                form = '2d-transposed-view'
                cols = [np.ascontiguousarray(c.T).T for c in cols]
            else:
                form = '2d-mixed-layout'
                cols[0] = np.asfortranarray(cols[0])
        desc['target_forms'] = desc.get('target_forms', []) + [form]
        given['pts'] = np.stack([np.asarray(c, dtype=float).reshape(-1)
                                 for c in cols], axis=1)
        given['shape'] = cols[0].shape
        return dict(x=cols[0], y=cols[1], z=cols[2])

    def target_points(step):
        # value k (in the logical, C order of the caller's arrays) belongs
        # to the caller's point k
        if 'pts' not in given:
            return None
        tp_ = interp.pa
        got = np.stack([tp_.get(c, only_real_particles=True)
                        for c in 'xyz'], axis=1)
        if got.shape != given['pts'].shape or \
                not np.array_equal(got, given['pts']):
            k_ = 0
            if got.shape == given['pts'].shape:
                k_ = int(np.nonzero((got != given['pts']).any(axis=1))[0][0])
            return ('target-points', 'op %d: target %d of the interpolator '
                    'is %s, the caller gave %s (%d points, layout %s)' % (
                        step, k_, got[k_].tolist() if len(got) > k_ else None,
                        given['pts'][k_].tolist(), len(given['pts']),
                        desc['target_forms'][-1]))

    def target_h(step):
        # target points carry the largest source smoothing length (the h
        # that enters HIJ and WI of the documented sums, and "in range")
        want = max(float(pa.h.max()) for pa in pas)
        got = interp.pa.get('h', only_real_particles=True)
        if got.size and not np.all(got == want):
            return ('target-h', 'op %d: target points have h in [%r, %r], '
                    'largest source h is %r' % (step, float(got.min()),
                                                float(got.max()), want))
    desc = dict(k=k, dim=dim, method=method, kernel=kname or 'default', L=L,
                narr=narr, periodic=periodic, variable=variable, ops=[])
    auto = rng.random() < 0.3
    kw = dict(kernel=K, domain_manager=dm, method=method)
    if auto:
        kw['num_points'] = int(rng.integers(20, 120))
    else:
        t0 = targets(int(rng.integers(10, 60)))
        kw.update(shaped(t0))
    try:
        interp = Interpolator(pas, **kw)
    except BaseException as e:
        return desc, ('build', '%s: %r' % (type(e).__name__, e))
    desc['ops'].append('init(auto)' if auto else 'init(points)')
    if interp.dim != dim:
        # the interpolator infers the dimension from the bounding box
        return desc, ('dim', 'Interpolator.dim = %d for %d-d data' % (
            interp.dim, dim))
    bad = target_h(-1) or target_points(-1)
    if bad:
        return desc, bad
    Kuse = interp.kernel
    nops = int(rng.integers(4, 9))
    props = ['p', 'q', 'lf', 'cf', 'only0']
    for step in range(nops):
        r = rng.random()
        if step and r < 0.15:
            t1 = targets(int(rng.integers(5, 50)))
            interp.set_interpolation_points(**shaped(t1))
            desc['ops'].append('set_interpolation_points')
            bad = target_h(step) or target_points(step)
            if bad:
                return desc, bad
        elif step and r < 0.3:
            pas = make_sources(rng, dim, narr, periodic, box, variable)
            # same names and properties as before, as the docs require
            for old, new in zip(interp.particle_arrays, pas):
                for p in old.properties:
                    if p not in new.properties:
                        new.add_property(p)
            set_fields(rng, pas, lin)
            interp.update_particle_arrays(pas)
            desc['ops'].append('update_particle_arrays')
        elif step and r < 0.5:
            for pa in pas:
                n = pa.get_number_of_particles(real=True)
                for ax, nm in enumerate('xyz'[:dim]):
                    v = pa.get(nm, only_real_particles=True)
                    v += rng.normal(size=n) * 0.03 * L
                    lo, hi = box[ax]
                    if periodic and periodic[ax]:
                        v[:] = lo + np.mod(v - lo, hi - lo)
                pa.get('p', only_real_particles=True)[:] = rng.normal(size=n)
            set_fields(rng, pas, lin)
            interp.update()
            desc['ops'].append('move+update')
        prop = props[int(rng.integers(len(props)))]
        comp = int(rng.integers(0, dim + 1)) if method == 'order1' else 0
        desc['ops'].append('interpolate(%s,%d)' % (prop, comp))
        try:
            res = np.asarray(interp.interpolate(prop, comp=comp))
        except BaseException as e:
            return desc, ('raise', 'op %d %s: %s: %r' % (
                step, desc['ops'][-1], type(e).__name__, e))
        tp = interp.pa
        nt = tp.get_number_of_particles(real=True)
        tpos = np.stack([tp.get(c, only_real_particles=True)
                         for c in 'xyz'], axis=1)
        th = tp.get('h', only_real_particles=True).copy()
        got = res.reshape(-1)
        if 'shape' in given and got.size == nt and \
                tuple(res.shape) != tuple(given['shape']):
            return desc, ('shape', 'op %d: result of shape %s for target '
                          'arrays of shape %s' % (step, res.shape,
                                                  given['shape']))
        if got.size != nt:
            return desc, ('shape', 'op %d: %d values for %d points' % (
                step, got.size, nt))
        srcs = snapshot_sources(pas, prop)
        if periodic:
            reach = 4.0 * max(float(th.max()), max(float(s['h'].max())
                                                   for s in srcs))
            lo, hi = tpos.min(axis=0), tpos.max(axis=0)
            ext = []
            for s in srcs:
                P, C = images(s['pos'], dict(h=s['h'], m=s['m'],
                                             rho=s['rho'], f=s['f']), box,
                              dim, periodic, reach, lo, hi)
                ext.append(dict(pos=P, **C))
            srcs = ext
        mon['interpolations'] = mon.get('interpolations', 0) + 1
        mon['points'] = mon.get('points', 0) + nt
        if method == 'order1':
            # rho of the sources is recomputed by the interpolator; the
            # defining sums use the values it left in the arrays
            if periodic:
                exp = None      # ghost densities are not a documented input
            else:
                exp = defining(method, Kuse, dim, tpos, th,
                               snapshot_sources(pas, prop), prop)
            if prop == 'cf' or (prop == 'lf' and not periodic):
                # (a linear field is not periodic) linear reproduction: independent of masses and densities
                if exp is None:
                    ex2 = defining(method, Kuse, dim, tpos, th, srcs, prop)
                    cond = ex2['cond']
                else:
                    cond = exp['cond']
                a, b = lin if prop == 'lf' else (2.75, [0.0, 0.0, 0.0])
                want = (a + tpos @ np.array(b)) if comp == 0 else \
                    np.full(nt, b[comp - 1])
                good = cond < 1e4
                scale = abs(a) + np.abs(b).sum() * (1.0 + np.abs(
                    tpos).max()) + 1.0
                err = np.abs(got - want)
                tol = 1e-9 * cond * scale / np.minimum(th, 1.0)
                bad = good & ~(err <= tol)
                mon['linear_points'] = mon.get('linear_points', 0) + \
                    int(good.sum())
                if bad.any():
                    i = int(np.nonzero(bad)[0][0])
                    return desc, ('order1:linear-field', 'op %d %s: point '
                                  '%d (cond %.3g): got %r, the linear field '
                                  'gives %r (%d of %d well-conditioned '
                                  'points)' % (step, desc['ops'][-1], i,
                                               cond[i], got[i], want[i],
                                               int(bad.sum()),
                                               int(good.sum())))
            if exp is not None:
                cond = exp['cond']
                good = cond < 1e4
                want = exp['value'][:, comp]
                fmax = max(float(np.abs(s['f']).max()) for s in srcs) + 1e-300
                tol = 1e-9 * cond * fmax / np.minimum(th, 1.0) ** (
                    1 if comp else 0)
                bad = good & ~(np.abs(got - want) <= tol)
                mon['order1_points'] = mon.get('order1_points', 0) + \
                    int(good.sum())
                if bad.any():
                    i = int(np.nonzero(bad)[0][0])
                    return desc, ('order1:defining-system', 'op %d %s: '
                                  'point %d (cond %.3g): got %r, solving the '
                                  'moment system gives %r (%d of %d)' % (
                                      step, desc['ops'][-1], i, cond[i],
                                      got[i], want[i], int(bad.sum()),
                                      int(good.sum())))
            continue
        exp = defining(method, Kuse, dim, tpos, th, srcs, prop)
        want = exp['value']
        tol = 1e-10 * exp['scale'] + 1e-13
        bad = ~(np.abs(got - want) <= tol)
        mon['sum_points'] = mon.get('sum_points', 0) + nt
        if bad.any():
            i = int(np.nonzero(bad)[0][0])
            return desc, ('%s:defining-sum' % method, 'op %d %s: point %d at '
                          '%r: got %r, the defining sum gives %r (%d of %d '
                          'points differ)' % (step, desc['ops'][-1], i,
                                              tpos[i].tolist(), got[i],
                                              want[i], int(bad.sum()), nt))
        if method == 'shepard':
            mon['empty_points'] = mon.get('empty_points', 0) + int(
                exp['nothing'].sum())
            z = exp['nothing'] & (got != 0.0)
            if z.any():
                i = int(np.nonzero(z)[0][0])
                return desc, ('shepard:nonzero-out-of-range', 'op %d: point '
                              '%d has no source in range but value %r' % (
                                  step, i, got[i]))
            ok = exp['convex']
            eps = 1e-12 * (np.abs(exp['lo']) + np.abs(exp['hi']) + 1e-300)
            out = ok & ((got < exp['lo'] - eps) | (got > exp['hi'] + eps))
            if out.any():
                i = int(np.nonzero(out)[0][0])
                return desc, ('shepard:out-of-hull', 'op %d: point %d value '
                              '%r outside [%r, %r]' % (
                                  step, i, got[i], exp['lo'][i],
                                  exp['hi'][i]))
            if prop == 'cf':
                ok = exp['in_range']
                c = ok & (np.abs(got - 2.75) > 1e-12 * exp['scale'] /
                          2.75 + 1e-12)
                mon['constant_points'] = mon.get('constant_points', 0) + \
                    int(ok.sum())
                if c.any():
                    i = int(np.nonzero(c)[0][0])
                    return desc, ('shepard:constant', 'op %d: constant field '
                                  '2.75 interpolated as %r at point %d' % (
                                      step, got[i], i))
    return desc, None


def run_evaluator(seed, k, mon):
    """SPHEvaluator with the Shepard equation through update /
    update_particle_arrays."""
    from pysph.tools.sph_evaluator import SPHEvaluator
    from pysph.tools.interpolator import InterpolateFunction
    from pysph.base.utils import get_particle_array
    rng = np.random.default_rng(common.case_seed(PROP, 'ev', seed, k))
    dim = int(rng.integers(1, 4))
    box = [(0.0, 1.0)] * 3
    desc = dict(k=k, dim=dim, method='SPHEvaluator+InterpolateFunction',
                ops=[])
    K = evalkit.kernel_for('CubicSpline' if rng.random() < 0.5 else
                           'QuinticSpline', dim)

    def fresh():
        pas = make_sources(rng, dim, 2, None, box, True)
        for pa in pas:
            pa.add_property('temp_prop')
            pa.get('temp_prop', only_real_particles=True)[:] = pa.get(
                'p', only_real_particles=True)
        nt = int(rng.integers(8, 40))
        t = np.zeros((nt, 3))
        t[:, :dim] = rng.uniform(-0.1, 1.1, size=(nt, dim))
        hmax = max(float(pa.h.max()) for pa in pas)
        tp = get_particle_array(name='interpolate', x=t[:, 0], y=t[:, 1],
                                z=t[:, 2], h=np.full(nt, hmax),
                                number_density=np.zeros(nt),
                                prop=np.zeros(nt))
        return pas, tp
    pas, tp = fresh()
    try:
        ev = SPHEvaluator(pas + [tp], [InterpolateFunction(
            dest='interpolate', sources=[p.name for p in pas])], dim=dim,
            kernel=K)
    except BaseException as e:
        return desc, ('build', '%s: %r' % (type(e).__name__, e))
    for step in range(int(rng.integers(3, 7))):
        r = rng.random()
        if step and r < 0.35:
            pas, tp = fresh()
            ev.update_particle_arrays(pas + [tp])
            desc['ops'].append('update_particle_arrays')
        elif step and r < 0.7:
            for pa in pas + [tp]:
                n = pa.get_number_of_particles()
                for nm in 'xyz'[:dim]:
                    pa.get(nm, only_real_particles=False)[:] += rng.normal(
                        size=n) * 0.04
            ev.update()
            desc['ops'].append('move+update')
        ev.evaluate()
        desc['ops'].append('evaluate')
        tpos = np.stack([tp.get(c) for c in 'xyz'], axis=1)
        srcs = snapshot_sources(pas, 'p')
        exp = defining('shepard', K, dim, tpos, tp.h.copy(), srcs, 'p')
        got = tp.prop.copy()
        mon['interpolations'] = mon.get('interpolations', 0) + 1
        mon['sum_points'] = mon.get('sum_points', 0) + len(got)
        bad = ~(np.abs(got - exp['value']) <= 1e-10 * exp['scale'] + 1e-13)
        if bad.any():
            i = int(np.nonzero(bad)[0][0])
            return desc, ('evaluator:defining-sum', 'op %d %s: point %d: got '
                          '%r, defining sum %r (%d of %d)' % (
                              step, desc['ops'][-2:], i, got[i],
                              exp['value'][i], int(bad.sum()), len(got)))
    return desc, None


def work(item):
    mon = {}
    viol = []
    distinct = []
    samples = []
    feats = set()
    for k in range(item['lo'], item['hi']):
        if item.get('kind') == 'evaluator':
            desc, bad = run_evaluator(item['seed'], k, mon)
        else:
            desc, bad = run_history(item['seed'], k, mon)
        mon['histories'] = mon.get('histories', 0) + 1
        distinct.append('%s%d' % (item.get('kind', 'h'), k))
        feats.add('%s/%s/%dd%s' % (desc['method'], desc.get('kernel', ''),
                                   desc['dim'], '/periodic' if
                                   desc.get('periodic') else ''))
        for o in desc['ops']:
            feats.add('op:' + o.split('(')[0])
        if bad:
            if sum(1 for v in viol if v['key'] == bad[0]) < 2:
                viol.append(dict(key=bad[0], what=bad[1][:1500], case=desc))
        if not samples and k % 7 == 0:
            samples.append(desc)
    return dict(evaluations=mon.get('interpolations', 0), distinct=distinct,
                violations=viol, counters=mon, samples=samples,
                sets=dict(configurations=sorted(feats)))


def run(tier):
    T = common.Timer()
    n = 40 if tier == 'quick' else 400
    per = 2
    items = [dict(seed=common.seed(), lo=per * i, hi=per * i + per,
                  flavour='plain', timeout=1800) for i in range(n)]
    ne = 8 if tier == 'quick' else 60
    items += [dict(seed=common.seed(), kind='evaluator', lo=i, hi=i + 1,
                   flavour='plain', timeout=1800) for i in range(ne)]
    m = harness.execute('checks.c14', items, timeout=1800)
    v = common.Verdict(PROP)
    c = m.counters
    for need, least in (('sum_points', 500), ('linear_points', 50),
                        ('order1_points', 50), ('constant_points', 20),
                        ('empty_points', 1)):
        if c.get(need, 0) < least:
            v.inconclusive_because('%s = %d (< %d)' % (need, c.get(need, 0),
                                                       least))
    return harness.finish(
        PROP, tier, 'exploration', m, v, T,
        rule='history = Interpolator(method in all five, kernel in all that '
             'exist for the dimension or the default, 1-3 source arrays in '
             '1-3 dimensions with variable h, m, rho, explicit points or '
             'automatic grid, optional periodic domain) followed by 4-8 '
             'operations from interpolate(prop, comp) / '
             'set_interpolation_points / update_particle_arrays / move '
             'particles + update; after every interpolate the result is '
             'compared with the defining sum over all source particles and '
             'periodic images (brute force, Python kernel), Shepard results '
             'with the hull of contributing values, constants and empty '
             'neighbourhoods, order1 with linear fields and with numpy\'s '
             'solution of the moment system where its equilibrated condition '
             'number is < 1e4; SPHEvaluator with the Shepard equation through '
             'update / update_particle_arrays',
        assumptions=['kernel values from the Python kernel classes (C08)',
                     'after changing source values in a periodic domain the '
                     'user calls update() (ghost copies are made there)',
                     'order1 in periodic domains is only checked on linear '
                     'and constant fields (ghost densities are an internal '
                     'quantity)',
                     'target points carry the largest source smoothing '
                     'length (asserted)',
                     'units of length between 0.01 and 2000: the Shepard '
                     'guard "number density > 1e-12" is an absolute number, '
                     'so for h above ~1e4 (3-d) the code returns the '
                     'un-normalised sum; not explored, noted in DESIGN.md'],
        min_evaluations=100, min_distinct=20)


def replay(path):
    with open(path) as fp:
        r = json.load(fp)
    print(json.dumps(r, indent=1)[:4000])
    return 1
