"""C01 - every neighbour-search algorithm returns exactly the true neighbours.

Reference-model monitor: numpy brute force (MUST / MAY sets) beside the real
query API of all 12 CPU classes over generated clouds, knob vectors, update
histories, cache on/off and OpenMP-filled caches; replayed on the ASan+UBSan
and TSan flavours."""
import json
import os

import numpy as np

from vlib import common, harness, gen
from vlib.worker import mark, san_dirty, exit_tainted

PROP = 'C01'
EPS = 1e-12

CLASSES = ['LinkedListNNPS', 'BoxSortNNPS', 'DictBoxSortNNPS',
           'SpatialHashNNPS', 'ExtendedSpatialHashNNPS', 'CellIndexingNNPS',
           'ZOrderNNPS', 'ExtendedZOrderNNPS', 'StratifiedHashNNPS',
           'StratifiedSFCNNPS', 'OctreeNNPS', 'CompressedOctreeNNPS']


def knob_choices(cls):
    if cls == 'SpatialHashNNPS':
        return [dict(table_size=t) for t in (1, 7, 131072)]
    if cls == 'ExtendedSpatialHashNNPS':
        return [dict(H=H, table_size=t, approximate=False)
                for H in (1, 2, 3, 4) for t in (1, 7, 131072)]
    if cls == 'ZOrderNNPS':
        # its stencil is always +-1 cell; H > 1 belongs to the Extended class
        return [dict(asymmetric=a) for a in (False, True)]
    if cls == 'ExtendedZOrderNNPS':
        return [dict(H=H, asymmetric=a) for H in (1, 2, 3)
                for a in (False, True)]
    if cls == 'StratifiedHashNNPS':
        return [dict(H=H, num_levels=nl, table_size=t) for H in (1, 2, 3)
                for nl in (1, 2, 3) for t in (7, 131072)]
    if cls == 'StratifiedSFCNNPS':
        return [dict(num_levels=nl, asymmetric=a) for nl in (1, 2, 3)
                for a in (False, True)]
    if cls in ('OctreeNNPS', 'CompressedOctreeNNPS'):
        return [dict(leaf_max_particles=m) for m in (2, 10, 32)]
    return [dict()]


def gen_case(seed, idx, tier):
    rng = np.random.default_rng(common.case_seed(PROP, seed, idx))
    nmax = 200 if tier == 'quick' else int(rng.choice([200, 200, 600, 1500]))
    arrays, recipe = gen.array_set(rng, nmax=nmax)
    dim = recipe['dim']
    case = dict(idx=idx, recipe=recipe, dim=dim,
                radius_scale=float(rng.choice([2.0, 2.0, 3.0])),
                history=gen.history(rng, arrays, dim,
                                    nops=int(rng.integers(0, 4))),
                threads=int(rng.choice([1, 2, 3, 5, 8])),
                gids=bool(rng.random() < 0.3),
                knob_seed=int(rng.integers(1 << 30)))
    if dim >= 2 and idx % 8 in (3, 7) and any(len(a['x']) for a in arrays):
        # every fourth case: all particles of all arrays share their x (or
        # y) coordinate exactly - a sheet aligned with the axes, zero extent
        # along an axis the search uses - and keep it (no history)
        ax = 'x' if idx % 8 == 3 else 'y'
        c0 = next(float(a[ax][0]) for a in arrays if len(a[ax]))
        for a in arrays:
            a[ax][:] = c0
        case['history'] = []
        case['flat_axis'] = ax
    return case, arrays


def make_pas(arrays, gids, rng):
    from pysph.base.utils import get_particle_array
    pas = []
    for a in arrays:
        pa = get_particle_array(name=a['name'], x=a['x'].copy(),
                                y=a['y'].copy(), z=a['z'].copy(),
                                h=a['h'].copy())
        if gids and len(a['x']):
            pa.gid[:] = rng.permutation(len(a['x'])).astype(np.uint32)
        pas.append(pa)
    return pas


def snapshot(pas):
    out = []
    for pa in pas:
        d = {c: pa.get(c, only_real_particles=False).copy()
             for c in ('x', 'y', 'z', 'h')}
        d['gid'] = pa.get('gid', only_real_particles=False).copy()
        out.append(d)
    return out


class Oracle(object):
    """MUST / MAY neighbour matrices for every (src, dst) pair."""

    def __init__(self, snap, rs):
        self.snap = snap
        self.rs = rs
        self.must = {}
        self.may = {}

    def pair(self, s, d):
        if (s, d) not in self.must:
            S, D = self.snap[s], self.snap[d]
            dx = D['x'][:, None] - S['x'][None, :]
            dy = D['y'][:, None] - S['y'][None, :]
            dz = D['z'][:, None] - S['z'][None, :]
            r = np.sqrt(dx * dx + dy * dy + dz * dz)
            R = self.rs * np.maximum(D['h'][:, None], S['h'][None, :])
            self.must[(s, d)] = r < R * (1 - EPS)
            self.may[(s, d)] = r <= R * (1 + EPS)
        return self.must[(s, d)], self.may[(s, d)]


def in_domain(snap, dim, rs):
    """The stated input domain (DESIGN.md C01, D)."""
    hs = np.concatenate([s['h'] for s in snap]) if snap else np.zeros(0)
    if len(hs) == 0:
        return True, 'no particles'
    if not np.all(hs > 0) or not np.all(np.isfinite(hs)):
        return False, 'h not positive'
    cell = rs * hs.max()
    ext = []
    for c in 'xyz':
        v = np.concatenate([s[c] for s in snap])
        if not np.all(np.isfinite(v)):
            return False, 'non-finite coordinate'
        ext.append((v.max() - v.min()) * 1.02 / cell + 1)
        if np.abs(v).max() / cell >= 2 ** 20:
            return False, 'coordinate/cell >= 2^20'
    if np.prod(ext[:dim]) > 2 ** 22:
        return False, 'more than 2^22 cells'
    return True, ''


ZFAM = ('ZOrderNNPS', 'ExtendedZOrderNNPS', 'StratifiedSFCNNPS')
SSFC = 'StratifiedSFCNNPS'
OFAM = ('OctreeNNPS', 'CompressedOctreeNNPS')


def family(cls):
    if cls == SSFC:
        return 'stratified-sfc'
    if cls in ZFAM:
        return 'zorder-family'
    if cls in OFAM:
        return 'octree-family'
    return cls


def structure(snap, dim):
    """Structural facts about the input used by the finding classifier."""
    n = [len(s['x']) for s in snap]
    tot = sum(n)
    facts = dict(n=n, empty_array=any(k == 0 for k in n), total=tot)
    coin = 0
    for s in snap:
        if len(s['x']) > 1:
            p = np.stack([s['x'], s['y'], s['z']], 1)
            u, cnt = np.unique(p, axis=0, return_counts=True)
            coin = max(coin, int(cnt.max()))
    facts['max_coincident'] = coin
    hs = np.concatenate([s['h'] for s in snap]) if snap else np.zeros(0)
    facts['h_ratio'] = float(hs.max() / hs.min()) if len(hs) and \
        hs.min() > 0 else 1.0
    facts['hmax'] = float(hs.max()) if len(hs) else 0.0
    if tot:
        ext = []
        for c in 'xyz':
            v = np.concatenate([s[c] for s in snap])
            ext.append(float(v.max() - v.min()))
        facts['degenerate_box'] = all(e < 1e-12 for e in ext)
    else:
        facts['degenerate_box'] = True
    return facts


def condition(cls, facts, knobs):
    """The structural condition part of a mechanism key."""
    knobs = knobs or {}
    if cls in OFAM and facts.get('max_coincident', 0) >= \
            knobs.get('leaf_max_particles', 10):
        return 'coincident>=leaf'
    if facts.get('empty_array'):
        return 'empty-array'
    if facts.get('degenerate_box') and facts.get('total', 0) >= 1 and \
            0 < facts.get('hmax', 1.0) < 1e-3 and (
                cls == 'LinkedListNNPS' or cls in ZFAM):
        # all particles at one point: the box is padded to unit size whatever
        # the cell size, so the number of cells is ~(1/(radius_scale*h))^dim
        return 'point-cloud,small-h'
    if cls in ZFAM and len(facts.get('n', [0])) > 1:
        return 'multi-array'
    if cls == 'ExtendedZOrderNNPS' and knobs.get('H', 3) > 1 and \
            not knobs.get('asymmetric', False) and \
            facts.get('h_ratio', 1.0) > 1.0 + 1e-9:
        return 'H>1,symmetric,variable-h'
    return 'regular'


def check_queries(nn, pas, oracle, cls, tag, sort_gids, mon, case, knobs,
                  limit=None):
    from cyarray.api import UIntArray
    nb = UIntArray()
    na = len(pas)
    nq = 0
    for d in range(na):
        nd = pas[d].get_number_of_particles()
        for s in range(na):
            ns = pas[s].get_number_of_particles()
            must, may = oracle.pair(s, d)
            gid = oracle.snap[s]['gid']
            for i in range(nd):
                nn.get_nearest_particles(s, d, i, nb)
                got = nb.get_npy_array().copy()
                nq += 1
                bad = None
                if len(got) and got.max() >= ns:
                    bad = ('invalid-index', 'index %d >= n_src %d' % (
                        got.max(), ns))
                else:
                    u = np.unique(got)
                    if len(u) != len(got):
                        bad = ('duplicate', 'duplicates in %r' % (
                            got.tolist()[:30],))
                    else:
                        gs = np.zeros(ns, dtype=bool)
                        gs[got] = True
                        miss = np.nonzero(must[i] & ~gs)[0]
                        extra = np.nonzero(gs & ~may[i])[0]
                        if len(miss):
                            bad = ('missing', 'missing %r' % (
                                miss.tolist()[:10],))
                        elif len(extra):
                            bad = ('extra', 'extra %r' % (
                                extra.tolist()[:10],))
                if bad:
                    mon.bad(cls, bad[0], tag, 'src=%d dst=%d i=%d: %s' % (
                        s, d, i, bad[1]), case, knobs, s, d, i, oracle)
                    if mon.per_config_full():
                        return nq
    return nq


class Mon(object):
    def __init__(self):
        self.viol = []
        self.cnt = {}
        self._cfg = 0
        self.facts = None

    def c(self, k, n=1):
        self.cnt[k] = self.cnt.get(k, 0) + n

    def start_config(self):
        self._cfg = 0

    def per_config_full(self):
        return self._cfg >= 3

    def bad(self, cls, kind, tag, what, case, knobs, s=None, d=None, i=None,
            oracle=None, facts=None):
        self._cfg += 1
        self.c('violating_observations')
        f = dict(facts or self.facts or {})
        if oracle is not None and s is not None:
            f['src_ne_dst'] = (s != d)
            if s != d and kind == 'missing':
                f['dst_cell_has_no_src'] = dst_cell_unoccupied(
                    oracle.snap, s, d, i, oracle.rs, knobs)
        key = classify(cls, kind, f, case, knobs)
        if sum(1 for v in self.viol if v['key'] == key) < 2:
            self.viol.append(dict(
                key=key, what='%s %s [%s] %s; facts %s' % (
                    cls, knobs, tag, what, {k: v for k, v in f.items()
                                            if k != 'n'}),
                case=dict(case=case, cls=cls, knobs=knobs)))


def dst_cell_unoccupied(snap, s, d, i, rs, knobs=None):
    """Is the (sub-)cell of destination particle i free of source particles?
    The z-order family keys its neighbour-box tables by cells of size
    cell_size / H."""
    hs = np.concatenate([q['h'] for q in snap])
    cell = rs * hs.max() / float((knobs or {}).get('H', 1))
    lo = [min(q[c].min() for q in snap if len(q[c])) for c in 'xyz']
    ext = [max(q[c].max() for q in snap if len(q[c])) - lo[k]
           for k, c in enumerate('xyz')]
    lo = [lo[k] - 0.01 * ext[k] for k in range(3)]
    ci = tuple(int(np.floor((snap[d][c][i] - lo[k]) / cell))
               for k, c in enumerate('xyz'))
    S = snap[s]
    if len(S['x']) == 0:
        return True
    cs = np.stack([np.floor((S[c] - lo[k]) / cell).astype(int)
                   for k, c in enumerate('xyz')], 1)
    return not np.any(np.all(cs == np.array(ci)[None, :], axis=1))


UNRELIABLE_KINDS = ('crash', 'missing', 'duplicate', 'invalid-index',
                    'sanitizer', 'timeout', 'constructor-raises',
                    'update-raises')


def classify(cls, kind, facts, case, knobs=None):
    """Mechanism key = family : kind : structural condition.  Only keys listed
    as 'known' in known_findings.json are suppressed; the condition is part
    of the key, so the same kind of failure on a *regular* input is a new
    violation.  For the two families whose data structures are shown to be
    corrupted under a structural condition (z-order family with several or
    empty arrays, octrees with coincident particles) every failure kind
    except 'extra' maps to one 'unreliable' key for that condition."""
    cond = condition(cls, facts or {}, knobs)
    fam = family(cls)
    if kind in UNRELIABLE_KINDS and fam == 'stratified-sfc':
        return 'stratified-sfc:unreliable:any-input'
    if kind in UNRELIABLE_KINDS and (
            (fam == 'zorder-family' and cond in (
                'multi-array', 'empty-array',
                'H>1,symmetric,variable-h')) or
            (fam == 'octree-family' and cond == 'coincident>=leaf')):
        return '%s:unreliable:%s' % (fam, cond)
    return '%s:%s:%s' % (fam, kind, cond)


_KNOWN = None


def known_crash_key(cls, knobs, case, arrays, dim):
    """Configurations that are *listed* crash findings are not executed again
    (a crash costs a worker and teaches nothing new); they are counted and
    reported as KNOWN-FINDING.  Anything not listed is run."""
    global _KNOWN
    if _KNOWN is None:
        _KNOWN = set(common.known_keys(PROP))
    if not _KNOWN:
        return None
    # will an array be empty / hold coincident particles at construction or
    # at any step of the history?  (conservative: the construction state and
    # "remove_all" operations)
    snap0 = [dict(x=a['x'], y=a['y'], z=a['z'], h=a['h']) for a in arrays]
    f = structure(snap0, dim)
    if will_have_empty_array(case, arrays):
        f['empty_array'] = True
    cond = condition(cls, f, knobs)
    if not ((cls in ZFAM and cond in ('empty-array',
                                      'point-cloud,small-h')) or
            (cls in OFAM and cond == 'coincident>=leaf')):
        return None       # not a condition under which a crash is listed
    key = classify(cls, 'crash', f, case, knobs)
    return key if key in _KNOWN else None


def will_have_empty_array(case, arrays):
    """Replays only the particle *counts* of the history (same random draws
    as gen.apply_op_pa)."""
    n = [len(a['x']) for a in arrays]
    if any(k == 0 for k in n):
        return True
    for op in case['history']:
        rng = np.random.default_rng(op['seed'])
        a = op['array']
        if op['kind'] == 'add':
            if n[a] or any(n):
                n[a] += int(rng.integers(1, 20))
        elif op['kind'] in ('remove', 'remove_all'):
            if n[a]:
                k = n[a] if op['kind'] == 'remove_all' else \
                    int(rng.integers(1, n[a] + 1))
                n[a] -= k
        if any(k == 0 for k in n):
            return True
    return False


def too_costly(cls, knobs, snap, dim):
    """The stratified / extended classes visit (2*ceil(H*hmax/hlevel)+1)^dim
    boxes per query: with h spread over decades and H > 1 that is 1e9 boxes
    and 14 GB (observed).  Correctness is not at stake, the run time is: such
    knob vectors are skipped and counted."""
    if cls not in ('StratifiedHashNNPS', 'StratifiedSFCNNPS',
                   'ExtendedSpatialHashNNPS', 'ExtendedZOrderNNPS'):
        return False
    hs = np.concatenate([q['h'] for q in snap]) if snap else np.zeros(0)
    if len(hs) == 0:
        return False
    ratio = float(hs.max() / hs.min())
    H = knobs.get('H', 1)
    if cls in ('ExtendedSpatialHashNNPS', 'ExtendedZOrderNNPS'):
        ratio = 1.0
    # the stencil tables of these classes are cubic whatever `dim` is
    return (2 * np.ceil(H * ratio) + 1) ** 3 > 2e5


def construct(cls, dim, pas, rs, knobs, cache, sort_gids):
    from pysph.base import nnps
    return getattr(nnps, cls)(dim=dim, particles=pas, radius_scale=rs,
                              cache=cache, sort_gids=sort_gids, **knobs)


def run_case(case, arrays, classes, mon, tier, full_knobs=False,
             skip=()):
    from pysph.base.nnps_base import get_number_of_threads
    try:
        from pysph.base.omp_threads import set_number_of_threads
    except ImportError:
        set_number_of_threads = None
    dim, rs = case['dim'], case['radius_scale']
    krng = np.random.default_rng(case['knob_seed'])
    if set_number_of_threads is not None:
        set_number_of_threads(case['threads'])
    nq = 0
    for cls in classes:
        choices = knob_choices(cls)
        kl = choices if full_knobs else \
            [choices[int(krng.integers(len(choices)))]]
        for knobs in kl:
            for cache in (False, True):
                sort_gids = bool(krng.random() < 0.5)
                mon.start_config()
                mon.facts = None
                rng = np.random.default_rng(case['knob_seed'] + 1)
                pas = make_pas(arrays, case['gids'], rng)
                snap = snapshot(pas)
                ok, why = in_domain(snap, dim, rs)
                facts = structure(snap, dim)
                mon.facts = facts
                tag = 'cache=%d sort=%d T=%d' % (cache, sort_gids,
                                                 case['threads'])
                kc = known_crash_key(cls, knobs, case, arrays, dim)
                if kc:
                    mon.c('configs_not_run_known_crash')
                    mon.c('known_crash|' + kc)
                    continue
                if too_costly(cls, knobs, snap, dim):
                    mon.c('configs_skipped_costly')
                    continue
                cid = '%d|%s|%s|%d' % (case['idx'], cls, json.dumps(
                    knobs, sort_keys=True), cache)
                if cid in skip:
                    mon.c('configs_skipped_after_crash')
                    continue
                if len(skip) >= 6:
                    # a work item that has already produced six reports or
                    # crashes (each one is classified: listed or VIOLATION)
                    # stops there; what it leaves out is counted
                    mon.c('configs_not_run_after_six_reports')
                    continue
                if cls == SSFC and len(skip) >= 3:
                    # listed for any input: under a sanitizer every
                    # configuration of this class ends in a report and the
                    # worker stops after each one; three reports per work
                    # item are taken, the remaining configurations counted
                    mon.c('configs_not_run_listed_any_input')
                    continue
                mark(dict(id=cid, cls=cls, knobs=knobs, cache=cache,
                          idx=case['idx'], facts=facts, in_domain=ok,
                          threads=case['threads']))
                try:
                    nn = construct(cls, dim, pas, rs, knobs, cache, sort_gids)
                except Exception as e:
                    if ok:
                        mon.bad(cls, 'constructor-raises', tag, repr(e)[:300],
                                case, knobs)
                    else:
                        mon.c('out_of_domain_refusals')
                    continue
                mon.c('configs')
                mon.c('cfg_' + cls)
                steps = [None] + list(case['history'])
                for k, op in enumerate(steps):
                    if op is not None:
                        cell = rs * max([s['h'].max() for s in snap
                                         if len(s['h'])] + [1e-300])
                        did = gen.apply_op_pa(op, pas, dim, cell)
                        mon.c('op_' + did)
                        mon.facts = structure(snapshot(pas), dim)
                        mark(dict(id=cid, cls=cls, knobs=knobs, cache=cache,
                                  idx=case['idx'], facts=mon.facts, step=k,
                                  op=did, threads=case['threads']))
                        try:
                            nn.update_domain()
                            nn.update()
                        except Exception as e:
                            snap = snapshot(pas)
                            ok, why = in_domain(snap, dim, rs)
                            if ok:
                                mon.bad(cls, 'update-raises', tag + ' step %d'
                                        % k, repr(e)[:300], case, knobs)
                            else:
                                mon.c('out_of_domain_refusals')
                            break
                        snap = snapshot(pas)
                        ok, why = in_domain(snap, dim, rs)
                    if not ok:
                        mon.c('out_of_domain_states')
                        break
                    oracle = Oracle(snap, rs)
                    mon.facts = structure(snap, dim)
                    if cache and cls != 'DictBoxSortNNPS' and k % 2 == 0:
                        # (DictBoxSortNNPS documents that it disables its cache)
                        # fill the cache with the OpenMP loop first
                        for d in range(len(pas)):
                            for s in range(len(pas)):
                                nn.set_context(s, d)
                                nn.cache[d * len(pas) + s].find_all_neighbors()
                        mon.c('omp_cache_fills')
                    nq += check_queries(nn, pas, oracle, cls,
                                        tag + ' step %d' % k, sort_gids, mon,
                                        case, knobs)
                    mon.c('steps_checked')
                    if san_dirty():
                        exit_tainted()
    mon.c('queries', nq)
    return nq


def work(item):
    mon = Mon()
    tier = item.get('tier', 'quick')
    distinct = []
    samples = []
    sets = dict(dists=set(), class_knobs=set())
    if 'replay' in item:
        rep = item['replay']
        case = rep['case']
        _, arrays = gen_case(item['seed'], case['idx'], tier)
        run_case(case, arrays, [rep['cls']], mon, tier, full_knobs=True)
        return dict(evaluations=1, violations=mon.viol, counters=mon.cnt)
    classes = item.get('classes', CLASSES)
    for idx in range(item['lo'], item['hi']):
        case, arrays = gen_case(item['seed'], idx, tier)
        if item.get('only_omp'):
            case['threads'] = item['only_omp']
        nq = run_case(case, arrays, classes, mon, tier,
                      full_knobs=item.get('full_knobs', False),
                      skip=set(item.get('skip', ())))
        if sum(len(a['x']) for a in arrays) >= 2:
            distinct.append('%d/%s' % (idx, '+'.join(classes)))
        for a in case['recipe']['arrays']:
            sets['dists'].add('%dD/%s/%s' % (case['dim'], a['dist'],
                                             a['hmode']))
        if idx % 40 == 0 and len(samples) < 2:
            samples.append(dict(case=case, queries=nq))
    return dict(evaluations=item['hi'] - item['lo'], distinct=distinct,
                violations=mon.viol, counters=mon.cnt, samples=samples,
                sets={k: sorted(v) for k, v in sets.items()})


def run(tier):
    T = common.Timer()
    seed = common.seed()
    n = 96 if tier == 'quick' else 1600
    per = 12 if tier == 'quick' else 40
    groups = [[c] for c in CLASSES]
    items = []
    for a, b in harness.chunks(n, per):
        for g in groups:
            items.append(dict(seed=seed, lo=a, hi=b, tier=tier,
                              flavour='plain', classes=g, timeout=400,
                              worker_key=g[0]))
    na = 24 if tier == 'quick' else 400
    for a, b in harness.chunks(na, 6 if tier == 'quick' else 16):
        for g in groups:
            items.append(dict(seed=seed, lo=a, hi=b, tier=tier,
                              flavour='asan', classes=g, timeout=900,
                              worker_key=g[0]))
    nt = 8 if tier == 'quick' else 120
    for a, b in harness.chunks(nt, 4 if tier == 'quick' else 12):
        for g in groups:
            items.append(dict(seed=seed + 1, lo=a, hi=b, tier=tier,
                              flavour='tsan', classes=g, worker_key=g[0],
                              only_omp=int(4 + (a % 3)), timeout=900))
    items.sort(key=lambda it: (it['flavour'], it['classes'][0], it['lo']))
    only = os.environ.get('VERIF_C01_FLAVOURS')
    if only:
        items = [it for it in items if it['flavour'] in only.split(',')]
    m, crashes = harness.execute_resilient(
        'checks.c01', items, timeout=2400,
        extra_env={'OMP_NUM_THREADS': '4'})
    v = common.Verdict(PROP)
    cov = harness.san_violations(m, v, classify=san_classify)
    # a crash or a hang on an in-domain input violates the property as such
    ncr = {}
    for c in crashes:
        mk = c['mark']
        if c['status'] == 'timeout':
            # wall clock is never a verdict
            ncr['watchdog'] = ncr.get('watchdog', 0) + 1
            common.log('  watchdog: %s' % (json.dumps(mk)[:300],))
            continue
        key = classify(mk['cls'], c['status'], mk.get('facts', {}), None,
                       mk.get('knobs'))
        ncr[key] = ncr.get(key, 0) + 1
        v.violation(key, '%s %s: worker %s in/after constructor or update; '
                    'facts %s; flavour %s; %s' % (
                        mk['cls'], mk.get('knobs'), c['status'],
                        mk.get('facts'), c['item'].get('flavour'),
                        c['detail'][-400:]),
                    dict(case=dict(idx=mk['idx']), cls=mk['cls'],
                         item=c['item']))
    cov['crashes_by_key'] = ncr
    if ncr.get('watchdog', 0) > 3:
        v.inconclusive_because('%d configurations hit the watchdog' %
                               ncr['watchdog'])
    for c in CLASSES:
        if m.counters.get('cfg_' + c, 0) < 4:
            v.inconclusive_because('class %s configured only %d times' % (
                c, m.counters.get('cfg_' + c, 0)))
    return harness.finish(
        PROP, tier, 'exploration', m, v, T,
        rule='case = 1-3 generated particle arrays (11 distributions incl. '
             'lattice on cell faces, coincident, single, empty, far offset; 4 '
             'h modes over up to 3 decades) in 1-3 D + radius_scale + 0-3 '
             'update operations (move / rescale h / add / remove / remove all)'
             '; per case every one of the 12 classes with one knob vector '
             '(all vectors in thorough), cache off and on (on: alternately '
             'filled by the OpenMP loop), every (src, dst, i) query compared '
             'with numpy brute-force MUST/MAY sets; non-trivial = at least 2 '
             'particles; distinct = case index',
        assumptions=['input domain: h > 0, |x|/cell < 2^20, <= 2^22 cells, '
                     'unused coordinates constant; outside it only crashes / '
                     'sanitizer reports count',
                     'thread count is set before the NNPS is constructed (as '
                     'Application does)',
                     'MUST/MAY band 1e-12 relative on the cut-off'],
        extra_cov=cov, min_evaluations=20, min_distinct=10)


def san_classify(rep, item):
    """sanitizer kind + top repository frame + structural condition of the
    configuration that was running (from the worker's breadcrumb)."""
    mk = item.get('mark') if isinstance(item, dict) else None
    if 'StratifiedSFCNNPS' in rep.get('key', '') and (
            not mk or mk.get('cls') != SSFC):
        # a report without a breadcrumb (it surfaced while the worker was
        # going down), or attached to another class's work item (sanitizer
        # logs are per process id, and ids are re-used within a long run):
        # StratifiedSFCNNPS is listed for any input, so its own faulting
        # frame identifies the finding; everything else stays a new violation
        return 'stratified-sfc:unreliable:any-input'
    if not mk:
        return None
    fam = family(mk['cls'])
    key = classify(mk['cls'], 'sanitizer', mk.get('facts', {}), None,
                   mk.get('knobs'))
    if ':unreliable:' in key:
        return key
    return '%s|%s' % (rep['key'], key)


def replay(path):
    with open(path) as fp:
        r = json.load(fp)
    from vlib import runner
    c = r['case']
    res = runner.run_one('checks.c01', dict(
        replay=dict(case=c['case'], cls=c['cls']), seed=common.seed(),
        tier=os.environ.get('VERIF_TIER', 'quick')))
    print(json.dumps(res, indent=1)[:5000])
    return 1 if res.get('violations') else 0
