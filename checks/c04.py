"""C04 - the compiled integrator performs one_timestep exactly as written.

Two identical worlds are built from one description.  World A is the real
thing: AccelerationEval(s) + Integrator + SPHCompiler, stepped with
integrator.step(t, dt).  World B executes the integrator's one_timestep
*Python function* literally on a reference object whose initialize / stageN
apply the Python stepper methods to the real particles of each array (after
the py_stageN hook), whose compute_accelerations refreshes a separate
neighbour search (unless update_nnps=False) and runs the documented group
semantics (vlib/refeval.py) and whose do_post_stage keeps the stage time.
After every step all properties of all arrays (real, Remote and ghost rows),
the post-stage callback arguments and the py_stage hook calls must agree."""
import hashlib
import inspect
import json
import linecache
import os
import re

import numpy as np

from vlib import common, harness, evalkit, refeval, stepkit
from vlib import eqcatalog as ec

PROP = 'C04'
WORLDS = {}     # wid -> dict(events=[...], pas=[...])
CONST_NAMES = {'num_body': 'int', 'omega': 'double', 'omega_dot': 'double',
               'vc': 'double', 'ac': 'double', 'omega0': 'double',
               'vc0': 'double'}
POSITIVE = ('rho', 'm', 'cs', 'V', 'h', 'e', 'n', 'rho0', 'h0', 'p')
_CLASS_CACHE = {}


def digest(pas):
    hsh = hashlib.sha1()
    for pa in pas:
        for p in sorted(pa.properties):
            hsh.update(pa.properties[p].get_npy_array().tobytes())
    return hsh.hexdigest()[:12]


def _exec_class(text, name):
    key = hashlib.sha1(text.encode()).hexdigest()[:10]
    if key not in _CLASS_CACHE:
        fname = '<vgen-c04-%s>' % key
        linecache.cache[fname] = (len(text), None, text.splitlines(True),
                                  fname)
        ns = {'__name__': 'vgen_c04_%s' % key}
        exec(compile(text, fname, 'exec'), ns)
        _CLASS_CACHE[key] = ns[name]
    return _CLASS_CACHE[key]


# ============================================================ accelerations
def acc_class(driven, uid):
    """Equation that (re)computes the 'acceleration' inputs of a stepper from
    neighbours, t and dt; non-commutative in time so that a skipped, repeated
    or stale evaluation stays visible."""
    driven = ['vq'] + sorted(driven)
    dargs = ', '.join('d_' + p for p in driven)
    init, loop = [], []
    for k, p in enumerate(driven):
        init.append('        d_%s[d_idx] = d_%s[d_idx]*0.25 + self.c0*(t + '
                    '2.0*dt) + %r' % (p, p, 0.01 * (k + 1)))
        loop.append('        d_%s[d_idx] += self.c1*s_m[s_idx]*WIJ*%r + '
                    '0.01*XIJ[%d]' % (p, 1.0 + 0.1 * k, k % 2))
    name = 'Acc%s' % uid
    text = '''from pysph.sph.equation import Equation


class %s(Equation):
    def __init__(self, dest, sources, c0=0.0, c1=0.0):
        self.c0 = c0
        self.c1 = c1
        super(%s, self).__init__(dest, sources)

    def initialize(self, d_idx, %s, t, dt):
%s

    def loop(self, d_idx, s_idx, %s, s_m, WIJ, XIJ):
%s
''' % (name, name, dargs, '\n'.join(init), dargs, '\n'.join(loop))
    return _exec_class(text, name)


# ============================================================== generators
def gen_stepper_source(rng, uid, nstage, full=False, resize=False):
    """Random stepper inside the documented subset: typed / strided
    properties, instance attributes with non-default values, t and dt,
    py_stageN hooks; every stage also counts (stamp) and logs the t it saw."""
    name = 'VStep%s' % uid
    L = ['from pysph.sph.integrator_step import IntegratorStep',
         'from checks import c04 as _c04', '', '',
         'class %s(IntegratorStep):' % name,
         '    def __init__(self, fa=1.0, fb=1.0, wid=0):',
         '        self.fa = fa', '        self.fb = fb',
         '        self.wid = wid', '']

    def c():
        return repr(float(rng.choice([0.5, 0.25, 1.5, -0.75, 0.125, 0.7])))
    stages = []
    if rng.random() < 0.7:
        stages.append('initialize')
    for k in range(1, nstage + 1):
        if full or rng.random() < 0.85:
            stages.append('stage%d' % k)
    if not any(s.startswith('stage') for s in stages):
        stages.append('stage1')
    for s in stages:
        code = 0 if s == 'initialize' else int(s[5:])
        L.append('    def %s(self, d_idx, d_x, d_y, d_u, d_v, d_u0, d_au, '
                 'd_av, d_q3, d_ki, d_stamp, d_tlog, t, dt):' % s)
        L.append('        n = declare(\'int\')')
        L.append('        n = d_stamp[d_idx]')
        L.append('        if n < 16:')
        L.append('            d_tlog[16*d_idx + n] = t*1000.0 + dt + %d.0'
                 % (code * 100))
        L.append('        d_stamp[d_idx] = n + 1')
        if s == 'initialize':
            L.append('        d_u0[d_idx] = d_u[d_idx]*%s + self.fb' % c())
        else:
            for _ in range(int(rng.integers(1, 4))):
                k = int(rng.integers(5))
                if k == 0:
                    L.append('        d_u[d_idx] = d_u0[d_idx]*%s + '
                             'dt*d_au[d_idx]*self.fa + t*%s' % (c(), c()))
                elif k == 1:
                    L.append('        d_v[d_idx] = d_v[d_idx]*%s + '
                             'dt*d_av[d_idx]*self.fb' % c())
                elif k == 2:
                    j = int(rng.integers(3))
                    L.append('        d_q3[3*d_idx + %d] = d_q3[d_idx*3 + '
                             '%d]*%s + d_au[d_idx]*dt + t' % (
                                 j, (j + 1) % 3, c()))
                elif k == 3:
                    L.append('        d_ki[d_idx] = (d_ki[d_idx]*3 + %d) %% '
                             '1009' % (code + 1))
                else:
                    L.append('        d_u0[d_idx] = d_u0[d_idx]*%s + '
                             'self.fa*d_v[d_idx]' % c())
            L.append('        d_x[d_idx] = d_x[d_idx] + dt*d_u[d_idx]*%s' %
                     c())
            L.append('        d_y[d_idx] = d_y[d_idx] + dt*d_v[d_idx]*%s' %
                     c())
        L.append('')
    for k in range(1, nstage + 1):
        if rng.random() < (0.7 if resize else 0.3):
            L.append('    def py_stage%d(self, dst, t, dt):' % k)
            L.append('        _c04.py_hook(self.wid, dst, %d, t, dt)' % k)
            L.append('        dst.vp[:] = dst.vp*0.5 + t + %s*dt' % c())
            if resize and rng.random() < 0.7:
                L.append('        _c04.resize_hook(dst, %d)' % k)
            L.append('')
    if rng.random() < 0.3:
        # a stepper that inherits all its stages (OutletStep(InletStep): pass)
        L += ['', 'class %sD(%s):' % (name, name), '    pass', '']
        name = name + 'D'
    text = '\n'.join(L) + '\n'
    text = text.replace('from checks import c04 as _c04',
                        'from checks import c04 as _c04\n'
                        'from compyle.api import declare')
    return name, text


RESIZES = [0]


def resize_hook(dst, stage):
    """What an inlet / outlet-like py_stage hook does: the number of real
    particles of its own array changes right before the stage loop."""
    RESIZES[0] += 1
    n = dst.get_number_of_particles(real=True)
    if stage % 2 == 1 and n > 6:
        dst.remove_particles(np.array([1, n - 2]))
    elif n > 2:
        extra = dst.extract_particles(np.array([0, n - 1]))
        extra.get('x')[:] += 0.013
        extra.get('y')[:] -= 0.007
        extra.get('stamp')[:] = 0
        dst.append_parray(extra)


def py_hook(wid, dst, stage, t, dt):
    w = WORLDS[wid]
    w['events'].append(('py_stage', dst.name, stage, float(t), float(dt),
                        digest(w['pas']) if w['exact'] else ''))


def gen_integrator_source(rng, uid, nstage, nsets, periodic,
                          resizing=False):
    name = 'VInt%s' % uid
    L = ['from pysph.sph.integrator import Integrator', '', '',
         'class %s(Integrator):' % name,
         '    def one_timestep(self, t, dt):']
    body = []
    if rng.random() < 0.7:
        body.append('self.initialize()')
    # is the neighbour search in line with the particle rows?  A step may
    # follow one that ended with update_domain(), so not at the start
    fresh = False
    fr = sorted(float(x) for x in rng.uniform(0.1, 1.0, size=nstage))
    fr[-1] = 1.0
    for k in range(1, nstage + 1):
        r = rng.random()
        if r < 0.75:
            i = int(rng.integers(nsets))
            r2 = rng.random()
            if r2 < 0.2 and fresh and not resizing:
                body.append('self.compute_accelerations(%d, update_nnps='
                            'False)' % i)
            elif r2 < 0.4 and i == 0:
                body.append('self.compute_accelerations()')
            elif r2 < 0.6:
                body.append('self.compute_accelerations(index=%d)' % i)
                fresh = True
            else:
                body.append('self.compute_accelerations(%d)' % i)
                fresh = True
            if 'update_nnps' not in body[-1]:
                fresh = True
        body.append('self.stage%d()' % k)
        if rng.random() < 0.7:
            body.append('self.update_domain()')
            if periodic:
                fresh = False
        body.append('self.do_post_stage(%r*dt, %d)' % (fr[k - 1], k))
        if rng.random() < 0.15:
            body.append('self.compute_accelerations(%d)' %
                        int(rng.integers(nsets)))
            fresh = True
    L += ['        ' + b for b in body]
    return name, '\n'.join(L) + '\n'


# ================================================================= programs
GEN_PROPS = dict(u=1, v=1, u0=1, au=1, av=1, q3=3, ki=1, stamp=1, tlog=16,
                 vp=1)
GEN_TYPES = dict(ki='int', stamp='int')


def describe(seed, k, tier):
    """Pure-data description of program k."""
    rng = np.random.default_rng(common.case_seed(PROP, seed, k))
    ints = sorted(ec.integrator_classes())
    steps = sorted(ec.stepper_classes())
    # steppers move particles in every direction they know of: generated
    # ones in x and y, shipped ones in x, y and z
    d = dict(k=k, dim=(int(rng.integers(2, 4)) if k % 2 == 0 else 3),
             dt=float(rng.choice([0.01, 0.005, 0.02])),
             t0=float(rng.choice([0.0, 0.35])), nsteps=3,
             data_seed=int(rng.integers(1 << 30)))
    if k % 2 == 0:
        # generated integrator and steppers
        nstage = int(rng.integers(1, 6))
        nsets = int(rng.integers(1, 4))
        narr = int(rng.integers(1, 4))
        # configuration classes rotate with the program index so that every
        # run of 16 generated programs meets all of them
        j = k // 2
        domain = ('periodic', 'mirror', 'none', 'periodic', 'mirror')[j % 5]
        periodic = domain != 'none'     # ghosts are re-created by the domain
        resizing = (j % 3 == 1)
        iname, isrc = gen_integrator_source(rng, 'k%d' % k, nstage, nsets,
                                            periodic, resizing)
        stp = []
        for a in range(narr):
            if a and rng.random() < 0.3:
                stp.append(dict(stp[0], fa=float(rng.uniform(0.5, 2)),
                                fb=float(rng.uniform(0.5, 2))))
                continue
            sname, ssrc = gen_stepper_source(
                rng, 'k%da%d' % (k, a), nstage,
                full=(a == 0 and rng.random() < 0.8), resize=resizing)
            stp.append(dict(name=sname, src=ssrc,
                            fa=float(rng.uniform(0.5, 2)),
                            fb=float(rng.uniform(0.5, 2))))
        d.update(kind='generated', integrator=dict(name=iname, src=isrc),
                 steppers=stp, nsets=nsets, periodic=periodic, exact=True,
                 domain=domain, fixed_h=bool(j % 2 == 0),
                 resizing=resizing)
    else:
        # shipped integrator x shipped steppers (different one per array)
        j = (k // 2)
        icls = ints[j % len(ints)]
        info = stepkit.timestep_calls(ec.integrator_classes()[icls])
        blocks = []
        for nm in steps:
            short = nm.rsplit('.', 1)[1]
            for b in blocks:
                if len(b) < 3 and short not in [
                        x.rsplit('.', 1)[1] for x in b]:
                    b.append(nm)
                    break
            else:
                blocks.append([nm])
        chosen = list(blocks[(j // len(ints)) % len(blocks)])
        seen = {x.rsplit('.', 1)[1] for x in chosen}
        # one_timestep must not call a stage that no stepper defines: swap
        # in steppers that define the missing ones
        stage_of = {}
        for nm in steps:
            c_ = ec.stepper_classes()[nm]
            stage_of[nm] = {m for m in dir(c_) if stepkit.STAGE_RE.match(m)}
        slot = len(chosen) - 1
        for _ in range(3):
            have = set().union(*[stage_of[n_] for n_ in chosen])
            missing = info['stages'] - have
            if not missing or slot < 0:
                break
            cands = [n_ for n_ in steps if missing & stage_of[n_] and
                     n_.rsplit('.', 1)[1] not in seen]
            cands.sort(key=lambda n_: -len(missing & stage_of[n_]))
            best = [n_ for n_ in cands if len(missing & stage_of[n_]) ==
                    len(missing & stage_of[cands[0]])]
            pick = best[int(rng.integers(len(best)))]
            seen.discard(chosen[slot].rsplit('.', 1)[1])
            chosen[slot] = pick
            seen.add(pick.rsplit('.', 1)[1])
            slot -= 1
        periodic = bool(info['update_domain'] and not info['stale'] and
                        rng.random() < 0.7)
        d.update(kind='shipped', integrator=dict(cls=icls),
                 steppers=[dict(cls=c_) for c_ in chosen],
                 nsets=info['nsets'], periodic=periodic, exact=False,
                 domain='periodic' if periodic else 'none', fixed_h=False)
    return d


def make_world(desc, wid):
    from pysph.sph.equation import Group
    from pysph.base.nnps import DomainManager
    rng = np.random.default_rng(desc['data_seed'])
    dim = desc['dim']
    names = ['a', 'b', 'c'][:len(desc['steppers'])]
    steppers = {}
    needs = {}
    skipped = []
    for nm, s in zip(names, desc['steppers']):
        if 'src' in s:
            cls = _exec_class(s['src'], s['name'])
            st = cls(fa=s['fa'], fb=s['fb'], wid=wid)
            needs[nm] = dict(props=dict(GEN_PROPS), types=dict(GEN_TYPES),
                             consts={}, driven=['au', 'av'])
        else:
            cls = ec.stepper_classes()[s['cls']]
            st = ec.instantiate(cls, None, dest=nm, sources=None) if \
                inspect.getfullargspec(cls.__init__).args[1:] else cls()
            pr = stepkit.probe_stepper(st)
            if pr['error'] or pr['indirect']:
                skipped.append('%s: %s' % (s['cls'], pr['error'] or
                                           'indirect indexing'))
                continue
            props, types, consts = {}, {}, {}
            rigid = 'num_body' in pr['props']
            for p, stv in pr['props'].items():
                if rigid and p in CONST_NAMES:
                    consts[p] = CONST_NAMES[p]
                elif p not in ('x', 'y', 'z', 'h'):
                    props[p] = stv
                    if p in stepkit.INT_NAMES:
                        types[p] = stepkit.INT_NAMES[p]
            driven = [p for p in pr['props'] if p not in pr['written'] and
                      p.startswith('a') and not (rigid and p in CONST_NAMES)
                      and
                      pr['props'][p] == 1]
            needs[nm] = dict(props=props, types=types, consts=consts,
                             driven=driven)
        steppers[nm] = st
    names = [n for n in names if n in steppers]
    pas = []
    for nm in names:
        nd = needs[nm]
        n = int(rng.integers(8, 18))
        pos = np.zeros((n, 3))
        pos[:, :dim] = rng.uniform(0.15, 0.85, size=(n, dim))
        hval = 0.6 / max(2.0, n ** (1.0 / dim)) * rng.uniform(0.9, 1.3)
        h = np.full(n, hval)
        props, strides, types = {}, {}, {}
        for p, stv in sorted(nd['props'].items()):
            strides[p] = stv
            tp = nd['types'].get(p, 'double')
            types[p] = tp
            if tp != 'double':
                props[p] = np.zeros(n * stv) if p == 'stamp' else \
                    rng.integers(0, 3, size=n * stv)
            elif p in POSITIVE:
                props[p] = rng.uniform(0.5, 2.0, size=n * stv)
            elif p == 'tlog':
                props[p] = np.zeros(n * stv)
            else:
                props[p] = rng.uniform(-0.5, 0.5, size=n * stv)
        props['m'] = np.full(n, hval ** dim) * rng.uniform(0.5, 1.5, size=n)
        props.setdefault('vq', rng.uniform(-0.5, 0.5, size=n))
        strides.setdefault('vq', 1)
        consts = {}
        for cname, tp in sorted(nd['consts'].items()):
            consts[cname] = np.array([2], dtype=np.int32) if tp == 'int' \
                else rng.uniform(-0.5, 0.5, size=6)
        pa = evalkit.make_array(nm, pos, h, props, strides, types,
                                constants=consts)
        tags = np.zeros(n, dtype=np.int32)
        tags[rng.random(n) < 0.2] = 1       # Remote rows: never stepped
        pa.tag[:] = tags
        pa.align_particles()
        pas.append(pa)
    domain = None
    if desc['domain'] == 'periodic':
        domain = DomainManager(xmin=0.0, xmax=1.0, ymin=0.0, ymax=1.0,
                               periodic_in_x=True,
                               periodic_in_y=True, zmin=0.0, zmax=1.0,
                               periodic_in_z=(dim == 3), n_layers=1.0)
    elif desc['domain'] == 'mirror':
        # mirror walls only (no periodic axis)
        domain = DomainManager(xmin=0.0, xmax=1.0, ymin=0.0, ymax=1.0,
                               mirror_in_x=True,
                               mirror_in_y=bool(desc['data_seed'] % 2),
                               n_layers=1.0)
    eqsets = []
    crng = np.random.default_rng(desc['data_seed'] + 1)
    for i in range(desc['nsets']):
        eqs = []
        for nm in names:
            cls = acc_class(needs[nm]['driven'], '%s' % hashlib.sha1(
                repr(sorted(needs[nm]['driven'])).encode()).hexdigest()[:8])
            eqs.append(cls(dest=nm, sources=list(names),
                           c0=float(crng.uniform(-1, 1)),
                           c1=float(crng.uniform(0.01, 0.08))))
        eqsets.append([Group(equations=eqs)])
    if 'src' in desc['integrator']:
        icls = _exec_class(desc['integrator']['src'],
                           desc['integrator']['name'])
    else:
        icls = ec.integrator_classes()[desc['integrator']['cls']]
    world = dict(events=[], pas=pas, names=names, steppers=steppers,
                 eqsets=eqsets, icls=icls, domain=domain, skipped=skipped,
                 dim=dim, exact=desc['exact'])
    WORLDS[wid] = world
    return world


# ============================================================ the reference
class RefIntegrator(object):
    """What one_timestep's `self` means according to the documentation."""

    def __init__(self, world, kernel):
        from pysph.base.nnps import LinkedListNNPS
        from cyarray.api import UIntArray
        self.w = world
        self.pas = world['pas']
        self.steppers = world['steppers']
        self.nnps = LinkedListNNPS(dim=world['dim'], particles=self.pas,
                                   radius_scale=kernel.radius_scale,
                                   domain=world['domain'])
        nb = UIntArray()
        nn = self.nnps

        def neighbours(si, di, i):
            nn.get_nearest_particles(si, di, i, nb)
            return nb.get_npy_array().copy()
        self.evals = [refeval.RefEval(self.pas, g, kernel, neighbours,
                                      live=True) for g in world['eqsets']]
        self.cb = None
        self.t = self.dt = self.orig_t = 0.0
        self._fn = {}
        self.calls = dict(stage_calls=0, particles_stepped=0, computes=0,
                          stale_computes=0, domain_updates=0, post_stage=0)

    def __getattr__(self, name):
        if stepkit.STAGE_RE.match(name):
            return lambda: self._stage(name)
        raise AttributeError(name)

    def _stage(self, method):
        t, dt = self.t, self.dt
        self.calls['stage_calls'] += 1
        for nm in sorted(self.steppers):
            st = self.steppers[nm]
            pa = next(p for p in self.pas if p.name == nm)
            hook = getattr(st, 'py_' + method, None)
            if hook is not None:
                hook(pa, t, dt)
            m = getattr(st, method, None)
            if m is None:
                continue
            key = (nm, method)
            if key not in self._fn:
                f = refeval.rebind(m)
                self._fn[key] = (f, inspect.getfullargspec(f).args[1:])
            f, args = self._fn[key]
            ctx = dict(t=t, dt=dt)
            for p, a in pa.properties.items():
                ctx['d_' + p] = refeval.view(a.get_npy_array())
            for c_, a in pa.constants.items():
                ctx['d_' + c_] = refeval.view(a.get_npy_array())
            n = pa.get_number_of_particles(real=True)
            for i in range(n):
                ctx['d_idx'] = i
                try:
                    f(st, *[ctx[a] for a in args])
                except (ZeroDivisionError, ValueError, OverflowError) as e:
                    raise refeval.PyUndefined('%s.%s: %r' % (
                        type(st).__name__, method, e))
            self.calls['particles_stepped'] += n

    def compute_accelerations(self, index=0, update_nnps=True):
        if update_nnps:
            self.nnps.update()
        else:
            self.calls['stale_computes'] += 1
        ev = self.evals[index]
        for a in ev.arrays:
            a.rebind()
        ev.compute(self.t, self.dt)
        self.calls['computes'] += 1

    def update_domain(self):
        self.nnps.update_domain()
        self.calls['domain_updates'] += 1

    def do_post_stage(self, stage_dt, stage):
        self.t = self.orig_t + stage_dt
        self.calls['post_stage'] += 1
        if self.cb is not None:
            self.cb(self.t, self.dt, stage)

    def step(self, t, dt):
        self.orig_t = t
        self.t = t
        self.dt = dt
        fn = self.w['icls'].one_timestep
        fn(self, t, dt)


def table(pas):
    out = {}
    for pa in pas:
        out[pa.name] = dict(
            n=pa.get_number_of_particles(), nreal=pa.num_real_particles,
            props={p: a.get_npy_array().copy()
                   for p, a in pa.properties.items()},
            consts={c_: a.get_npy_array().copy()
                    for c_, a in pa.constants.items()})
    return out


def close(a, b, exact):
    if a.shape != b.shape:
        return False
    if exact or a.dtype.kind in 'iu':
        return bool(np.array_equal(a, b, equal_nan=a.dtype.kind == 'f'))
    with np.errstate(all='ignore'):
        ok = (a == b) | (np.isnan(a) & np.isnan(b)) | (
            np.abs(a - b) <= 1e-11 * (np.abs(a) + np.abs(b)) + 1e-300)
    return bool(ok.all())


def run_program(desc, mon):
    from pysph.base.kernels import CubicSpline
    from pysph.sph.acceleration_eval import AccelerationEval
    from pysph.sph.sph_compiler import SPHCompiler
    from pysph.base.nnps import LinkedListNNPS
    import contextlib
    import io
    wa, wb = 2 * desc['k'] + 1000, 2 * desc['k'] + 1001
    A = make_world(desc, wa)
    B = make_world(desc, wb)
    for s in A['skipped']:
        mon.setdefault('_skipped', set()).add(s)
    if not A['names']:
        return A, None
    kernel = CubicSpline(dim=A['dim'])
    need_stages = stepkit.timestep_calls(A['icls'])['stages']
    have = set()
    for st in A['steppers'].values():
        have |= set(stepkit.stage_methods(st))
        have |= {h[3:] for h in stepkit.py_hooks(st)}
    if not need_stages <= have:
        # one_timestep calls a stage none of these steppers defines: this
        # combination is not a program (the wrapper does not exist)
        mon['incompatible'] = mon.get('incompatible', 0) + 1
        return A, None
    buf = io.StringIO()
    try:
        with contextlib.redirect_stdout(buf):
            aes = [AccelerationEval(A['pas'], g, kernel)
                   for g in A['eqsets']]
            integ = A['icls'](**A['steppers'])
            comp = SPHCompiler(aes, integ)
            comp.compile()
    except BaseException as e:
        return A, ('build', '%s: %r %s' % (type(e).__name__, e,
                                           buf.getvalue()[-1500:]))
    nn = LinkedListNNPS(dim=A['dim'], particles=A['pas'],
                        radius_scale=kernel.radius_scale,
                        domain=A['domain'])
    for ae in aes:
        ae.set_nnps(nn)
    integ.set_nnps(nn)
    if desc.get('fixed_h'):
        # (smoothing lengths are constant in generated programs)
        integ.set_fixed_h(True)
        mon['fixed_h_programs'] = mon.get('fixed_h_programs', 0) + 1
        if desc['domain'] == 'mirror':
            mon['mirror_fixed_h_programs'] = mon.get(
                'mirror_fixed_h_programs', 0) + 1
    mon['domain_' + desc['domain']] = mon.get('domain_' + desc['domain'],
                                              0) + 1

    def cb_for(w):
        def cb(t, dt, stage):
            w['events'].append(('post_stage', float(t), float(dt),
                                int(stage),
                                digest(w['pas']) if w['exact'] else ''))
        return cb
    integ.set_post_stage_callback(cb_for(A))
    ref = RefIntegrator(B, kernel)
    ref.cb = cb_for(B)
    # both start from an up-to-date domain and neighbour search, as the
    # solver does before the first step
    nn.update_domain()
    nn.update()
    ref.nnps.update_domain()
    ref.nnps.update()
    t = desc['t0']
    dt = desc['dt']
    for step in range(desc['nsteps']):
        integ.step(t, dt)
        try:
            ref.step(t, dt)
        except refeval.PyUndefined as e:
            mon['py_undefined'] = mon.get('py_undefined', 0) + 1
            return A, None
        t += dt
        mon['steps'] = mon.get('steps', 0) + 1
        ea, eb = A['events'], B['events']
        if ea != eb:
            j = next((i for i, (x, y) in enumerate(zip(ea, eb)) if x != y),
                     min(len(ea), len(eb)))
            return A, ('events', 'step %d: event %d differs: compiled %r, '
                       'literal %r (%d vs %d events)' % (
                           step, j, ea[j:j + 1], eb[j:j + 1], len(ea),
                           len(eb)))
        ta, tb = table(A['pas']), table(B['pas'])
        finite = True
        for nm in A['names']:
            if ta[nm]['n'] != tb[nm]['n'] or \
                    ta[nm]['nreal'] != tb[nm]['nreal']:
                return A, ('particle-count', 'step %d: array %s has %d/%d '
                           'particles, literal %d/%d' % (
                               step, nm, ta[nm]['n'], ta[nm]['nreal'],
                               tb[nm]['n'], tb[nm]['nreal']))
            for kind in ('props', 'consts'):
                for p in sorted(ta[nm][kind]):
                    a_, b_ = ta[nm][kind][p], tb[nm][kind][p]
                    if a_.dtype.kind == 'f' and not np.isfinite(b_).all():
                        finite = False
                    if not close(a_, b_, desc['exact']):
                        bad = np.nonzero(~((a_ == b_) | (
                            (a_ != a_) & (b_ != b_))))[0]
                        i = int(bad[0])
                        stv = A['pas'][A['names'].index(nm)].stride.get(
                            p, 1) if kind == 'props' else 1
                        pi = i // stv
                        tag = int(ta[nm]['props']['tag'][pi]) if \
                            kind == 'props' else -1
                        return A, ('state:%s' % ('ghost-or-remote' if tag > 0
                                                 else 'real'),
                                   'step %d: %s.%s[%d] (particle %d, tag %d)'
                                   ' compiled %r, literal %r; %d entries '
                                   'differ' % (step, nm, p, i, pi, tag,
                                               a_[i], b_[i], len(bad)))
        if not finite:
            mon['nonfinite'] = mon.get('nonfinite', 0) + 1
            break
    for k_, v in ref.calls.items():
        mon[k_] = mon.get(k_, 0) + v
    mon['resize_hook_calls'] = mon.get('resize_hook_calls', 0) + RESIZES[0]
    RESIZES[0] = 0
    mon['events'] = mon.get('events', 0) + len(A['events'])
    mon['py_stage_events'] = mon.get('py_stage_events', 0) + sum(
        1 for e in A['events'] if e[0] == 'py_stage')
    mon['ghost_rows'] = mon.get('ghost_rows', 0) + int(sum(
        (pa.get('tag', only_real_particles=False) == 2).sum()
        for pa in A['pas']))
    mon['remote_rows'] = mon.get('remote_rows', 0) + int(sum(
        (pa.get('tag', only_real_particles=False) == 1).sum()
        for pa in A['pas']))
    return A, None


def work(item):
    mon = {}
    viol = []
    distinct = []
    samples = []
    ints, steps = set(), set()
    for k in range(item['lo'], item['hi']):
        desc = describe(item['seed'], k, item.get('tier', 'quick'))
        A, bad = run_program(desc, mon)
        WORLDS.clear()
        mon['programs'] = mon.get('programs', 0) + 1
        mon['programs_' + desc['kind']] = mon.get(
            'programs_' + desc['kind'], 0) + 1
        distinct.append('%d' % k)
        ints.add(desc['integrator'].get('cls', 'generated'))
        for s in desc['steppers']:
            steps.add(s.get('cls', 'generated'))
        if bad:
            light = dict(desc)
            key = bad[0]
            if sum(1 for v in viol if v['key'] == key) < 2:
                viol.append(dict(key=key, what=bad[1][:1800], case=light))
        if k % 8 == 0 and not samples:
            samples.append(dict(k=k, integrator=desc['integrator'].get(
                'src', desc['integrator'].get('cls')),
                steppers=[s.get('cls', s.get('name'))
                          for s in desc['steppers']]))
    skipped = sorted(mon.pop('_skipped', ()))
    return dict(evaluations=mon.get('steps', 0), distinct=distinct,
                violations=viol, counters=mon, samples=samples,
                sets=dict(integrators=sorted(ints), steppers=sorted(steps),
                          skipped=skipped))


def run(tier):
    T = common.Timer()
    # odd k: shipped (14 integrators x triples of the 36 steppers: 168
    # programs cover every pair at least once), even k: generated
    n = 32 if tier == 'quick' else 336
    base = (common.seed() % 11) * 32 if tier == 'quick' else 0
    fl = os.environ.get('C04_FLAVOUR', 'plain')
    items = [dict(seed=common.seed(), lo=base + k, hi=base + k + 1,
                  flavour=fl, timeout=1800, tier=tier) for k in range(n)]
    # the same programs' generated integrator module under gcc ASan+UBSan
    nas = 4 if tier == 'quick' else 48
    off = (common.seed() * 4) % 336
    items += [dict(seed=common.seed(), lo=off + k, hi=off + k + 1,
                   flavour='asan', timeout=3000, tier=tier)
              for k in range(nas)]
    m = harness.execute('checks.c04', items, timeout=3000)
    v = common.Verdict(PROP)
    cov = harness.san_violations(m, v)
    c = m.counters
    for need, least in (('stage_calls', 50), ('particles_stepped', 500),
                        ('computes', 30), ('post_stage', 50),
                        ('domain_updates', 20), ('ghost_rows', 10),
                        ('remote_rows', 10), ('py_stage_events', 1),
                        ('stale_computes', 1), ('domain_mirror', 2),
                        ('domain_periodic', 2), ('fixed_h_programs', 2),
                        ('mirror_fixed_h_programs', 1),
                        ('resize_hook_calls', 4)):
        if c.get(need, 0) < least:
            v.inconclusive_because('%s = %d (< %d)' % (need, c.get(need, 0),
                                                       least))
    return harness.finish(
        PROP, tier, 'exploration', m, v, T,
        rule='program = integrator class (every shipped one in turn, or a '
             'generated one_timestep of 1-5 stages with compute_accelerations'
             '(i[, update_nnps=False]), update_domain, do_post_stage in '
             'random arrangement over 1-3 equation sets) x 1-3 arrays each '
             'with its own stepper (every shipped one in turn, or generated '
             'with py_stage hooks, attributes, strided and int properties) '
             'x random particle states with Remote rows and periodic or mirror '
             'ghosts (fixed_h on or off) '
             'x 3 consecutive steps; compiled step() vs literal Python '
             'execution of one_timestep on a reference object; all '
             'properties and constants of all arrays, post-stage callback '
             'arguments and py_stage calls (with array digests) compared '
             'after every step',
        assumptions=['single OpenMP thread',
                     'the reference takes neighbours from its own '
                     'LinkedListNNPS on its own arrays (C01) and runs '
                     'equations by the documented group semantics (C02/C03)',
                     'shipped steppers are compared to 1e-11 relative, '
                     'generated (arithmetic-only) ones bit for bit',
                     'update_nnps=False is only generated while the '
                     'neighbour search is in line with the ghost rows'],
        extra_cov=cov, min_evaluations=30, min_distinct=10)


def replay(path):
    with open(path) as fp:
        r = json.load(fp)
    print(json.dumps(r, indent=1)[:4000])
    return 1
