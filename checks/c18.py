"""C18 - the solver controller never loses a command or a wake-up.

The real pysph.solver.controller is imported with an instrumented `threading`
module and driven under a controlled scheduler (vlib/sched.py): one solver
thread executing control points, one or two interface threads running random
scripts.  A client-boundary history (call / return of every controller
method, command executions, control points, on one logical clock) is checked
offline: exactly-once execution on the solver thread, result delivery, the
pause protocol, and bounded progress (no enabled thread = deadlock)."""
import importlib
import json
import sys

import numpy as np

from vlib import common, harness, sched

PROP = 'C18'
NEEDS_PYSPH = True
_P = None
_CTL = None


def load_controller():
    """Import pysph.solver.controller once with the instrumented threading."""
    global _P, _CTL
    if _CTL is not None:
        return _P, _CTL
    import logging, functools                      # noqa: E401,F401
    import pysph.base.particle_array               # noqa: F401
    import pysph.solver                            # noqa: F401
    P = sched.Primitives()
    shim = P.make_module()
    saved = sys.modules['threading']
    sys.modules['threading'] = shim
    try:
        sys.modules.pop('pysph.solver.controller', None)
        ctl = importlib.import_module('pysph.solver.controller')
    finally:
        sys.modules['threading'] = saved
    assert ctl.threading is shim
    _P, _CTL = P, ctl
    return P, ctl


class FakeSolver(object):
    def __init__(self):
        self.t = 0.0
        self.tf = 1.0
        self.dt = 0.1
        self.count = 0
        self.pfreq = 10
        self.fname = 'x'
        self.detailed_output = False
        self.output_directory = '.'
        self.command_interval = 1
        self.particles = []

    def dump_output(self):
        return 'dumped'


def gen_script(rng, allow_result_while_paused):
    """A protocol-respecting script for one interface thread."""
    ops = []
    pending = 0
    paused = False
    waited = False
    n = int(rng.integers(2, 9))
    for _ in range(n):
        choices = ['get', 'set_q', 'lazy_q', 'set_b', 'bad']
        if pending and (not paused or allow_result_while_paused):
            choices += ['result', 'result']
        if not paused:
            choices += ['pause', 'pause']
        else:
            choices += ['cont', 'cont']
            if not waited:
                choices += ['wait', 'wait']
        op = str(rng.choice(choices))
        if op == 'pause':
            paused, waited = True, False
        elif op == 'wait':
            waited = True
        elif op == 'cont':
            paused = False
        elif op in ('set_q', 'lazy_q'):
            pending += 1
        elif op == 'result':
            pending -= 1
        ops.append(op)
    if paused:
        ops.append('cont')
    while pending:
        ops.append('result')
        pending -= 1
    return ops


def one_world(seed, scripts, strategy, max_solver_steps=400):
    P, ctl = load_controller()
    W = sched.World(seed, strategy=strategy, max_steps=6000)
    P.use(W)
    solver = FakeSolver()
    cm = ctl.CommandManager(solver)
    log = []                     # (clock, thread, kind, data)
    in_cp = [False]
    finished = [0]
    uniq = [100]

    def ev(kind, **data):
        log.append((W.tick(), W.cur.name, kind, data))

    orig_run = cm.run_command

    def run_command(cmd, args=[], kwargs={}):
        ev('exec', cmd=cmd, args=list(args), in_cp=in_cp[0])
        return orig_run(cmd, args, kwargs)
    cm.run_command = run_command

    def solver_thread():
        idle = 0
        while finished[0] < len(scripts):
            solver.count += 1
            ev('cp_enter', count=solver.count)
            in_cp[0] = True
            cm.execute_commands(solver)
            in_cp[0] = False
            ev('cp_exit', count=solver.count)
            if solver.count >= max_solver_steps:
                ev('solver_gave_up', count=solver.count)
                break
            # a time step lies between two control points: usually somebody
            # else gets to run, sometimes the solver is back at once
            W.point('yield-to-others' if W.rng.random() < 0.7 else
                    'between-steps')

    def iface(k, ops):
        cq = ctl.Controller(cm, block=False)
        cb = ctl.Controller(cm, block=True)
        pend = []

        def body():
            for op in ops:
                ev('call', op=op)
                res = None
                if op == 'get':
                    res = cq.get('count')
                elif op == 'set_b':
                    uniq[0] += 1
                    cb.set('pfreq', uniq[0])
                elif op == 'set_q':
                    uniq[0] += 1
                    val = float(uniq[0])
                    tid = cq.set('dt', val)
                    pend.append((tid, 'set', val))
                    res = tid
                elif op == 'lazy_q':
                    tid = cq.get_particle_array_names()
                    pend.append((tid, 'get_particle_array_names', None))
                    res = tid
                elif op == 'result':
                    tid, cmd, val = pend.pop(0)
                    r = cq.get_result(tid)
                    res = dict(tid=tid, cmd=cmd, val=val, result=r)
                elif op == 'bad':
                    # a request the manager rejects by design: the session
                    # (this thread's and everybody else's) carries on
                    try:
                        if W.rng.random() < 0.5:
                            cq.get('no_such_property')
                        else:
                            cb.set('no_such_property', 1)
                        res = 'accepted'
                    except RuntimeError:
                        res = 'rejected'
                elif op == 'pause':
                    res = cq.pause_on_next()
                elif op == 'wait':
                    res = cq.wait()
                elif op == 'cont':
                    cq.cont()
                ev('ret', op=op, res=res)
            finished[0] += 1
            ev('script_done')
        return body

    W.spawn('solver', solver_thread)
    for k, ops in enumerate(scripts):
        W.spawn('iface%d' % k, iface(k, ops))
    verdict = W.run(timeout=60)
    return W, verdict, log, solver


def check_history(W, verdict, log, scripts):
    """-> list of (key, message)"""
    bad = []
    if W.error is not None:
        name, e = W.error
        bad.append(('exception:%s' % type(e).__name__,
                    'thread %s raised %r' % (name, e)))
    if verdict[0] == 'deadlock':
        why = verdict[1]
        kinds = sorted('%s: %s' % (k, v) for k, v in why.items())
        bad.append((classify_deadlock(why, log), 'no enabled thread; blocked:'
                    ' %s' % kinds))
    elif verdict[0] in ('budget', 'watchdog'):
        return bad, 'inconclusive'
    if any(e[2] == 'solver_gave_up' for e in log):
        # the solver reached its cap of control points with a script still
        # running: bounded progress undecided for this schedule
        return bad, 'inconclusive'
    # (1) exactly-once execution of queued commands, on the solver thread
    issued = {}
    for c, th, kind, d in log:
        if kind == 'ret' and d['op'] == 'set_q':
            issued[d['res']] = None
    execs = {}
    for c, th, kind, d in log:
        if kind == 'exec' and d['cmd'] == 'set' and d['args'][0] == 'dt':
            v = d['args'][1]
            execs.setdefault(v, []).append((th, d['in_cp']))
    results = {}
    for c, th, kind, d in log:
        if kind == 'ret' and d['op'] == 'result':
            r = d['res']
            results[r['tid']] = r
            if r['cmd'] == 'set':
                ex = execs.get(r['val'], [])
                if len(ex) != 1:
                    bad.append(('not-exactly-once', 'queued set dt=%r '
                                'executed %d times before its result was '
                                'delivered' % (r['val'], len(ex))))
                elif ex[0][0] != 'solver' or not ex[0][1]:
                    bad.append(('executed-outside-control-point', 'queued set'
                                ' dt=%r ran on %s, in control point: %s' % (
                                    r['val'], ex[0][0], ex[0][1])))
                if r['result'] is not None:
                    bad.append(('wrong-result', 'set returned %r' % (
                        r['result'],)))
            elif r['cmd'] == 'get_particle_array_names' and r['result'] != []:
                bad.append(('wrong-result', 'names returned %r' % (
                    r['result'],)))
    for v, ex in execs.items():
        if len(ex) > 1:
            bad.append(('not-exactly-once', 'set dt=%r executed %d times' % (
                v, len(ex))))
    # (2) pause protocol per interface thread
    cp_enters = [(c, d['count']) for c, th, k, d in log if k == 'cp_enter']
    counts = [(c, d['count']) for c, th, k, d in log if k == 'cp_enter']
    for th in sorted(set(e[1] for e in log if e[1].startswith('iface'))):
        evs = [e for e in log if e[1] == th]
        t_pause = None
        t_waitret = None
        for c, _, kind, d in evs:
            if kind == 'ret' and d['op'] == 'pause':
                t_pause, t_waitret = c, None
            elif kind == 'ret' and d['op'] == 'wait' and t_pause is not None:
                t_waitret = c
                # the solver must be held inside a control point now
                sol = [e for e in log if e[1] == 'solver' and e[0] < c and
                       e[2] in ('cp_enter', 'cp_exit')]
                if not sol or sol[-1][2] != 'cp_enter':
                    bad.append(('wait-returned-outside-control-point',
                                '%s: pause_on_next returned at %d, wait() '
                                'returned at %d while the solver was not '
                                'inside a control point (last solver event '
                                '%s)' % (th, t_pause, c,
                                         sol[-1][2:] if sol else None)))
            elif kind == 'call' and d['op'] == 'cont' and \
                    t_waitret is not None:
                adv = [(e[2], e[3].get('count')) for e in log
                       if e[1] == 'solver' and t_waitret < e[0] < c and
                       e[2] in ('cp_enter', 'cp_exit')]
                if adv:
                    bad.append(('solver-advanced-while-paused', '%s: between '
                                'wait() returning (%d) and cont() (%d) the '
                                'solver left / entered control points: %s' % (
                                    th, t_waitret, c, adv)))
                t_pause = t_waitret = None
    return bad, 'decided'


def classify_deadlock(why, log):
    s = ' '.join('%s:%s' % (k, v) for k, v in sorted(why.items()))
    pending_call = {}
    for c, th, kind, d in log:
        if kind == 'call':
            pending_call[th] = d['op']
        elif kind == 'ret':
            pending_call.pop(th, None)
    ops = '+'.join(sorted(set(pending_call.values()))) or 'none'
    if 'never notified' in s and 'wait' in ops:
        return 'deadlock:wait-lost-wakeup'
    if 'acquire' in s and 'cont' in ops:
        return 'deadlock:cont-lock-order'
    if 'result' in ops:
        return 'deadlock:get_result'
    return 'deadlock:%s' % ops


def real_thread_runs(n):
    """Second, uncontrolled engine: the *uninstrumented* controller with real
    threads (pause / wait / queued set / get_result / cont, five times per
    run).  Its only verdicts are 'history consistent' and 'watchdog fired';
    the latter is reported as an observation, never as a violation."""
    import threading
    sys.modules.pop('pysph.solver.controller', None)
    ctl = importlib.import_module('pysph.solver.controller')
    out = dict(real_runs_completed=0, real_runs_watchdog=0,
               real_runs_inconsistent=0)
    try:
        for rep in range(n):
            s = FakeSolver()
            cm = ctl.CommandManager(s)
            done = threading.Event()
            bad = []

            def solver():
                while not done.is_set() and s.count < 200000:
                    s.count += 1
                    cm.execute_commands(s)

            def iface():
                c = ctl.Controller(cm, block=False)
                for k in range(5):
                    c.pause_on_next()
                    c.wait()
                    n0 = s.count
                    tid = c.set('dt', 0.5 + k)
                    c.get_result(tid)
                    if s.count != n0 or s.dt != 0.5 + k:
                        bad.append((n0, s.count, s.dt))
                    c.cont()
                done.set()
            t1 = threading.Thread(target=solver, daemon=True)
            t2 = threading.Thread(target=iface, daemon=True)
            t1.start()
            t2.start()
            t2.join(30)
            if t2.is_alive():
                out['real_runs_watchdog'] += 1
                break
            t1.join(10)
            out['real_runs_inconsistent' if bad else
                'real_runs_completed'] += 1
    finally:
        global _CTL
        sys.modules.pop('pysph.solver.controller', None)
        _CTL = None
    return out


def work(item):
    res = dict(evaluations=0, distinct=[], violations=[], samples=[],
               counters={}, sets=dict(interleavings=set()))
    cnt = res['counters']
    if item.get('real_threads'):
        cnt.update(real_thread_runs(item['real_threads']))
        return res
    if item.get('selftest'):
        st = sched.selftest(100)
        cnt.update({'selftest_' + k: v for k, v in st.items()})
        return res
    idxs = [item['replay_idx']] if 'replay_idx' in item else \
        range(item['lo'], item['hi'])
    for idx in idxs:
        rng = np.random.default_rng(common.case_seed(PROP, item['seed'], idx))
        nth = int(rng.choice([1, 1, 2]))
        rwp = bool(rng.random() < 0.15)
        scripts = [gen_script(rng, rwp) for _ in range(nth)]
        strategy = str(rng.choice(['random', 'random', 'sticky', 'pct']))
        W, verdict, log, solver = one_world(int(rng.integers(1 << 30)),
                                            scripts, strategy)
        bad, status = check_history(W, verdict, log, scripts)
        res['evaluations'] += 1
        cnt['verdict_' + verdict[0]] = cnt.get('verdict_' + verdict[0], 0) + 1
        cnt['sync_events'] = cnt.get('sync_events', 0) + len(W.trace)
        cnt['history_events'] = cnt.get('history_events', 0) + len(log)
        cnt['control_points'] = cnt.get('control_points', 0) + sum(
            1 for e in log if e[2] == 'cp_enter')
        cnt['commands_executed'] = cnt.get('commands_executed', 0) + sum(
            1 for e in log if e[2] == 'exec')
        cnt['commands_rejected'] = cnt.get('commands_rejected', 0) + sum(
            1 for e in log if e[2] == 'ret' and e[3].get('res') == 'rejected')
        if status == 'inconclusive':
            cnt['inconclusive_worlds'] = cnt.get('inconclusive_worlds', 0) + 1
            continue
        sig = W.signature()
        res['sets']['interleavings'].add(sig)
        res['distinct'].append(sig)
        for key, msg in bad:
            if rwp and ('result' in key or 'blocked-forever' in key):
                key += ':result-requested-while-paused'
            if sum(1 for v in res['violations'] if v['key'] == key) < 2:
                res['violations'].append(dict(
                    key=key, what='%s | scripts %s strategy %s' % (
                        msg, scripts, strategy),
                    case=dict(idx=idx, scripts=scripts, strategy=strategy,
                              tail=[list(map(str, e)) for e in log[-12:]])))
            cnt['violating_worlds'] = cnt.get('violating_worlds', 0) + 1
        if idx % 1000 == 0 and len(res['samples']) < 2:
            res['samples'].append(dict(scripts=scripts, strategy=strategy,
                                       verdict=verdict[0],
                                       history=[list(map(str, e))
                                                for e in log[:30]]))
    res['sets']['interleavings'] = sorted(res['sets']['interleavings'])
    res['distinct'] = sorted(set(res['distinct']))
    return res


def run(tier):
    T = common.Timer()
    n = 3200 if tier == 'quick' else 300000
    items = [dict(selftest=True, flavour='plain'),
             dict(real_threads=40 if tier == 'quick' else 400,
                  flavour='plain', worker_key='real')]
    items += [dict(seed=common.seed(), lo=a, hi=b, flavour='plain')
              for a, b in harness.chunks(n, 200 if tier == 'quick' else 5000)]
    m = harness.execute('checks.c18', items, timeout=3600)
    v = common.Verdict(PROP)
    if m.counters.get('selftest_mutex', 0) < 100 or \
            m.counters.get('selftest_lost_notify', 0) < 1 or \
            m.counters.get('selftest_abba_deadlocks', 0) < 1:
        v.inconclusive_because('instrumented primitives failed their '
                               'self-test: %s' % {k: v for k, v in
                                                  m.counters.items()
                                                  if k.startswith('selftest')})
    if m.counters.get('inconclusive_worlds', 0) > 0.05 * max(
            1, m.evaluations):
        v.inconclusive_because('%d of %d schedules hit the step budget' % (
            m.counters['inconclusive_worlds'], m.evaluations))
    if m.counters.get('commands_rejected', 0) < 50:
        v.inconclusive_because('only %d rejected commands in the histories'
                               % m.counters.get('commands_rejected', 0))
    return harness.finish(
        PROP, tier, 'exploration', m, v, T,
        rule='case = 1-2 interface scripts of 2-8 protocol-respecting calls '
             '(get, blocking set, queued set / lazy method, a request the '
             'manager rejects, get_result, '
             'pause_on_next, wait, cont) + one solver thread, run under a '
             'controlled scheduler (uniform random / sticky / PCT priorities) '
             'that switches only at synchronisation operations; the recorded '
             'history is checked offline; distinct = hash of the (thread, '
             'operation, object) sequence, i.e. distinct interleavings',
        assumptions=['scripts respect the documented protocol: wait and cont '
                     'only after pause_on_next, get_result only for issued '
                     'task ids',
                     'interleavings at synchronisation-primitive granularity '
                     '(the property restricts itself to that)',
                     'the solver keeps reaching control points until every '
                     'script has returned (60 at most): a script still '
                     'blocked then is "blocked forever"'],
        min_evaluations=500, min_distinct=200)


def replay(path):
    with open(path) as fp:
        r = json.load(fp)
    from vlib import runner
    res = runner.run_one('checks.c18', dict(replay_idx=r['case']['idx'],
                                            seed=common.seed()))
    print(json.dumps(res, indent=1)[:6000])
    return 1 if res.get('violations') else 0
