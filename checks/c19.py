"""C19 - the adaptive time step is the documented minimum over all particles.

Reference-model monitor: a numpy transcription of the statement evaluated
beside the real Integrator.compute_time_step / Solver._compute_timestep on
generated sets of real ParticleArrays (refreshed by a real NNPS update)."""
import json
import math

import numpy as np

from vlib import common, harness

PROP = 'C19'
CRIT = ('dt_cfl', 'dt_force', 'dt_visc')


def gen_case(seed, idx):
    rng = np.random.default_rng(common.case_seed(PROP, seed, idx))
    na = int(rng.integers(1, 5))
    hscale = float(10 ** rng.uniform(-3, 3))
    hspread = float(rng.choice([0.0, 0.3, 2.0]))
    use_adapt = rng.random() < 0.35
    arrays = []
    for a in range(na):
        n = int(rng.choice([0, 0, 1, 2, 5, 17]))
        nghost = int(rng.choice([0, 0, 3])) if n > 0 or rng.random() < 0.1 \
            else 0
        tot = n + nghost
        h = hscale * 10 ** rng.uniform(-hspread, hspread, size=tot)
        d = dict(name='a%d' % a, n=n, nghost=nghost, h=h.tolist(), props={})
        for c in CRIT:
            if rng.random() < 0.6:
                mode = rng.choice(['zero', 'pos', 'mixed'])
                v = np.zeros(tot)
                if mode == 'pos':
                    v[:n] = 10 ** rng.uniform(-3, 4, size=n)
                elif mode == 'mixed':
                    v[:n] = np.where(rng.random(n) < 0.5, 0.0,
                                     10 ** rng.uniform(-3, 4, size=n))
                d['props'][c] = v.tolist()
        if use_adapt and rng.random() < 0.7:
            mode = rng.choice(['pos', 'pos', 'zero', 'mixed'])
            v = np.zeros(tot)
            if mode == 'pos':
                v[:] = 10 ** rng.uniform(-6, 1, size=tot)
            elif mode == 'mixed':
                v[:] = np.where(rng.random(tot) < 0.3, 0.0,
                                10 ** rng.uniform(-6, 1, size=tot))
            # ghosts deliberately carry *smaller* values than any real one
            if nghost and n:
                v[n:] = v[:n].min() * 0.01 if v[:n].min() > 0 else 1e-9
            d['props']['dt_adapt'] = v.tolist()
        arrays.append(d)
    return dict(idx=idx, arrays=arrays, cfl=float(rng.uniform(0.05, 1.0)),
                dt=float(10 ** rng.uniform(-5, 0)),
                fixed_h=bool(rng.random() < 0.4),
                dim=int(rng.integers(1, 4)))


def model(case):
    """Transcription of the statement.  Returns the proposed step or None
    (keep the fixed step)."""
    arrays = case['arrays']
    having = [a for a in arrays if 'dt_adapt' in a['props']]
    if having:
        vals = [v for a in having for v in a['props']['dt_adapt'][:a['n']]]
        if vals and min(vals) > 0:
            return float(min(vals)), 'dt_adapt'
        # present but not "used and positive" (no real particle carries it,
        # or its minimum is zero): "otherwise" the criteria formula
        alt, _ = model(dict(case, arrays=[
            dict(a, props={k: v for k, v in a['props'].items()
                           if k != 'dt_adapt'}) for a in arrays]))
        return alt, 'dt_adapt_nonpositive'
    hs = [v for a in arrays for v in a['h']]
    if not hs:
        return None, 'no_particles'
    hmin = min(hs)
    mx = {}
    for c in CRIT:
        vals = [v for a in arrays if c in a['props']
                for v in a['props'][c][:a['n']]]
        mx[c] = max(vals) if vals else -1.0
    cands = []
    if mx['dt_cfl'] > 0:
        cands.append(hmin / mx['dt_cfl'])
    if mx['dt_force'] > 0:
        cands.append(math.sqrt(hmin / math.sqrt(mx['dt_force'])))
    if mx['dt_visc'] > 0:
        cands.append(hmin / mx['dt_visc'])
    if not cands:
        return None, 'no_criterion'
    return case['cfl'] * min(cands), 'criteria'


def build(case):
    from pysph.base.utils import get_particle_array
    pas = []
    for a in case['arrays']:
        tot = a['n'] + a['nghost']
        x = np.linspace(0.1 * len(pas), 1 + 0.1 * len(pas), tot + 1)[:tot]
        pa = get_particle_array(name=a['name'], x=x, h=np.array(a['h']))
        for k, v in a['props'].items():
            pa.add_property(k, data=np.array(v))
        if a['nghost']:
            tag = np.zeros(tot, dtype=np.int32)
            tag[a['n']:] = 2
            pa.tag[:] = tag
            pa.align_particles()
        pas.append(pa)
    return pas


class AEval(object):
    def __init__(self, pas):
        self.particle_arrays = pas


def observe(case):
    from pysph.sph.integrator import Integrator
    from pysph.sph.integrator_step import IntegratorStep
    from pysph.solver.solver import Solver
    from pysph.base.nnps import LinkedListNNPS
    pas = build(case)
    info = {}
    try:
        if sum(pa.get_number_of_particles() for pa in pas) < 2:
            # a bounding box of zero extent is C01's business (and crashes
            # the linked list in 1-D/2-D); refresh the caches directly
            raise ValueError('degenerate')
        late = None
        counts = [pa.get_number_of_particles() for pa in pas]
        if case['idx'] % 4 == 1:
            # an array that is empty when the neighbour search is made and
            # gets its particles later (an outlet, a callback that fills it)
            cands = [i for i, n_ in enumerate(counts)
                     if n_ > 0 and sum(counts) - n_ >= 2]
            if cands:
                late = pas[cands[case['idx'] // 4 % len(cands)]]
                held = late.extract_particles(
                    np.arange(late.get_number_of_particles()))
                late.remove_particles(
                    np.arange(late.get_number_of_particles()))
        nn = LinkedListNNPS(dim=case['dim'], particles=pas)
        nn.update_domain()
        if late is not None:
            late.append_parray(held)
            nn.update_domain()
            nn.update()
            info['late_fill'] = True
        info['refresh'] = 'nnps'
    except Exception as e:
        for pa in pas:
            pa.get_carray('h').update_min_max()
        info['refresh'] = 'direct (%s)' % type(e).__name__
    integ = Integrator(**{pa.name: IntegratorStep() for pa in pas})
    integ.set_acceleration_evals(AEval(pas))
    def refresh():
        for pa in pas:
            pa.get_carray('h').update_min_max()

    def setup():
        # what Solver.setup does on every set-up
        integ.set_fixed_h(bool(case['fixed_h']))
    if case['idx'] % 3 == 0:
        # an earlier life of the same integrator (an earlier Solver.setup on
        # finer particles: a quarter of the present smoothing lengths); what
        # it proposed then must not influence what it proposes now
        for pa in pas:
            pa.get('h', only_real_particles=False)[:] *= 0.25
        refresh()
        try:
            setup()
            integ.compute_time_step(case['dt'], case['cfl'])
        except Exception:
            pass
        for pa in pas:
            # (a power of two: restored bit for bit)
            pa.get('h', only_real_particles=False)[:] *= 4.0
        refresh()
        info['earlier_life'] = True
    try:
        setup()
    except Exception as e:
        info['setup_exc'] = repr(e)
    try:
        got = integ.compute_time_step(case['dt'], case['cfl'])
        info['exc'] = None
    except Exception as e:
        got = None
        info['exc'] = repr(e)
    s = Solver(dim=case['dim'], integrator=integ, dt=case['dt'],
               adaptive_timestep=True, cfl=case['cfl'])
    try:
        got2 = s._compute_timestep()
    except Exception as e:
        got2 = 'exc:' + repr(e)
    # the same through a start-up damping history, as Solver.solve() drives
    # it: dt <- _get_timestep() once per iteration while count grows
    hist = []
    nd = case['idx'] % 7
    if nd and info['exc'] is None:
        s2 = Solver(dim=case['dim'], integrator=integ, dt=case['dt'],
                    adaptive_timestep=True, cfl=case['cfl'], n_damp=nd,
                    tf=1e9)
        try:
            for cnt in range(nd + 2):
                s2.count = cnt
                hist.append(float(s2._compute_timestep()))
                s2.dt = s2._get_timestep()
        except Exception as e:
            hist.append('exc:' + repr(e))
    info['damped_history'] = hist
    return got, got2, info


def classify(case, why, got, want):
    arrays = case['arrays']
    hs = [v for a in arrays for v in a['h']]
    if why in ('criteria',):
        empties = [a for a in arrays if a['n'] + a['nghost'] == 0]
        if got is None and empties:
            return 'hmin-zero-from-empty-array'
        if hs and min(hs) > 1.0 and got is not None:
            # value computed with hmin = 1
            alt = dict(case, arrays=[dict(a, h=[min(1.0, v) for v in a['h']])
                                     for a in arrays])
            w2, _ = model(alt)
            if w2 is not None and abs(got - w2) <= 1e-12 * abs(w2):
                return 'hmin-capped-at-one'
    if why == 'no_particles' or why == 'no_criterion':
        pass
    having = [a for a in arrays if 'dt_adapt' in a['props']]
    if having and not any(a['n'] for a in having) and got == float('inf'):
        return 'dt_adapt-all-empty-gives-inf'
    return 'wrong-time-step:%s' % why


def work(item):
    res = dict(evaluations=0, distinct=[], violations=[], samples=[],
               counters={}, sets={})
    cnt = res['counters']

    def c(k):
        cnt[k] = cnt.get(k, 0) + 1
    cases = [item['replay']] if 'replay' in item else \
        [gen_case(item['seed'], i) for i in range(item['lo'], item['hi'])]
    for case in cases:
        want, why = model(case)
        got, got2, info = observe(case)
        res['evaluations'] += 1
        c('why_' + why)
        c('refresh_' + info['refresh'].split(' ')[0])
        if info.get('late_fill'):
            c('late_filled_array')
        if info['exc']:
            key = 'raises'
            arrays = case['arrays']
            if any(a['n'] == 0 and a['nghost'] > 0 and 'dt_adapt' in
                   a['props'] for a in arrays):
                key = 'raises:dt_adapt-on-array-with-ghosts-only'
            res['violations'].append(dict(
                key=key, what='compute_time_step raised %s' % info['exc'],
                case=case))
            continue
        ok = (got is None and want is None) or (
            got is not None and want is not None and
            abs(got - want) <= 1e-12 * abs(want))
        if why == 'dt_adapt_nonpositive' and want is not None:
            c('dt_adapt_unused_criteria_apply')
        if why in ('criteria', 'dt_adapt') or (
                why == 'dt_adapt_nonpositive' and want is not None):
            res['distinct'].append('%d' % case['idx'])
        if not ok:
            res['violations'].append(dict(
                key=classify(case, why, got, want),
                what='compute_time_step=%r, statement gives %r (%s); cfl=%r '
                     'fixed_h=%r' % (got, want, why, case['cfl'],
                                     case['fixed_h']), case=case))
        else:
            c('agree')
            # solver wrapper: the value, or the fixed step when None
            want2 = want if want is not None else case['dt']
            if not (isinstance(got2, float) or isinstance(got2, np.floating))\
                    or abs(got2 - want2) > 1e-12 * abs(want2):
                res['violations'].append(dict(
                    key='solver-compute-timestep', what='Solver.'
                    '_compute_timestep=%r, expected %r' % (got2, want2),
                    case=case))
            else:
                c('solver_agree')
            for j, g3 in enumerate(info.get('damped_history', ())):
                c('solver_damped_history_steps')
                if not isinstance(g3, float) or \
                        abs(g3 - want2) > 1e-9 * abs(want2):
                    res['violations'].append(dict(
                        key='solver-compute-timestep:damped-start',
                        what='iteration %d of a run with n_damp=%d: Solver.'
                        '_compute_timestep=%r, expected %r (%s)' % (
                            j, case['idx'] % 7, g3, want2, why), case=case))
                    break
        if case['idx'] % 5000 == 0:
            res['samples'].append(dict(case=case, want=want, got=got))
    return res


def run(tier):
    T = common.Timer()
    n = 20000 if tier == 'quick' else 400000
    items = [dict(seed=common.seed(), lo=a, hi=b, flavour='plain')
             for a, b in harness.chunks(n, 500 if tier == 'quick' else 5000)]
    m = harness.execute('checks.c19', items, timeout=3600)
    v = common.Verdict(PROP)
    for key in ('why_criteria', 'why_dt_adapt', 'why_no_criterion',
                'dt_adapt_unused_criteria_apply', 'late_filled_array'):
        if m.counters.get(key, 0) < 50:
            v.inconclusive_because('only %d cases of kind %s' % (
                m.counters.get(key, 0), key))
    return harness.finish(
        PROP, tier, 'exploration', m, v, T,
        rule='case = 1-4 real ParticleArrays (0-17 real + 0-3 ghost '
             'particles, h over 1e-3..1e3 with per-particle spread, any '
             'subset of dt_cfl/dt_force/dt_visc/dt_adapt with zero / positive '
             '/ mixed values, ghosts carrying smaller dt_adapt than any real '
             'particle), cfl, fixed_h; refreshed by a real NNPS.update_domain;'
             ' compared with a numpy transcription of the statement to 1e-12; '
             'non-trivial = a criterion applies (formula or dt_adapt branch)',
        assumptions=['dt_adapt present but not positive (zero, or on no real '
                     'particle): "otherwise" the criteria formula applies, '
                     'as for arrays without the property',
                     'h min/max caches are as fresh as the last domain '
                     'update, as in the solver loop'],
        min_evaluations=1000, min_distinct=300)


def replay(path):
    with open(path) as fp:
        r = json.load(fp)
    from vlib import runner
    res = runner.run_one('checks.c19', dict(replay=r['case']))
    print(json.dumps(res, indent=1)[:5000])
    return 1 if res.get('violations') else 0
