"""C10 - the solver loop reaches tf exactly and honours the output schedule.

Monitor: the real `Solver.solve()` driven by a stub integrator; a trace of
step / dump / callback events is recorded at the Solver's boundary and an
offline checker decides the trace specification (DESIGN.md, C10)."""
import json
import math

import numpy as np

from vlib import common, harness

PROP = 'C10'
EPS = float(np.finfo(float).eps)


# --------------------------------------------------------------- generator
def gen_case(seed, idx):
    rng = np.random.default_rng(common.case_seed(PROP, seed, idx))
    c = {}
    c['idx'] = idx
    tf = float(10 ** rng.uniform(-3, 3))
    nsteps = float(10 ** rng.uniform(0.2, 2.6))       # 1.6 .. 400 steps
    if rng.random() < 0.25:
        # commensurate: tf is an integral number of steps
        nsteps = float(int(nsteps) + 1)
        dt = tf / nsteps
        if rng.random() < 0.5:
            dt = float(np.round(dt, 3)) or dt
            tf = dt * nsteps
    else:
        dt = tf / nsteps
    c['tf'] = tf
    c['dt'] = dt
    c['pfreq'] = int(rng.choice([1, 2, 3, 5, 7, 10, 50, 1000]))
    c['n_damp'] = int(rng.choice([0, 0, 0, 1, 2, 5, 20]))
    kind = rng.choice(['none', 'none', 'few', 'cluster', 'first', 'onstep',
                       'tf', 'mixed'])
    times = []
    if kind in ('few', 'mixed'):
        times += list(rng.uniform(0, tf, size=rng.integers(1, 5)))
    if kind in ('cluster', 'mixed'):
        t0 = rng.uniform(0, tf)
        gaps = dt * 10 ** rng.uniform(-6, -0.1, size=rng.integers(2, 5))
        times += list(t0 + np.cumsum(gaps))
    if kind in ('first', 'mixed') or rng.random() < 0.1:
        times += [dt * rng.uniform(0.01, 0.99)]
    if kind in ('onstep', 'mixed'):
        for k in rng.integers(1, max(2, int(nsteps)), size=rng.integers(1, 4)):
            times += [float(k) * dt]
    if kind == 'tf' or rng.random() < 0.1:
        times += [tf]
    if times and rng.random() < 0.08:
        times += [times[int(rng.integers(len(times)))]]   # an exact duplicate
    times = sorted(float(t) for t in times if 0 < t <= tf)
    c['output_at_times'] = times[:8]
    c['kind'] = str(kind)
    ad = rng.choice(['off', 'off', 'const', 'random', 'shrink', 'grow',
                     'none_mixed'])
    c['adaptive'] = str(ad)
    script = []
    if ad != 'off':
        n = 40
        if ad == 'const':
            script = [dt * float(rng.uniform(0.3, 1.5))] * n
        elif ad == 'random':
            script = list(dt * 10 ** rng.uniform(-0.7, 0.4, size=n))
        elif ad == 'shrink':
            script = list(dt * np.linspace(1.0, 0.25, n))
        elif ad == 'grow':
            script = list(dt * np.linspace(0.3, 2.0, n))
        else:
            script = [None if rng.random() < 0.4 else
                      dt * float(10 ** rng.uniform(-0.5, 0.3))
                      for _ in range(n)]
    c['script'] = [None if s is None else float(s) for s in script]
    c['max_steps'] = (int(rng.integers(1, max(2, int(nsteps))))
                      if rng.random() < 0.07 else None)
    c['cfl'] = float(rng.uniform(0.1, 1.0))
    # how the solver is told: constructor arguments, or a solver made with
    # other values (shorter or longer run) and then the setters in some order
    # (what Application does with create_solver() + command-line options)
    if rng.random() < 0.35:
        c['setters'] = [int(i) for i in rng.permutation(7)]
        c['tf_before'] = float(tf * rng.choice([0.1, 0.37, 2.5]))
    return c


# ------------------------------------------------------------------ stubs
class TooManySteps(Exception):
    pass


class StubIntegrator(object):
    def __init__(self, trace, script, cap):
        self.trace = trace
        self.script = script
        self.k = 0
        self.cap = cap
        self.nsteps = 0

    def initial_acceleration(self, t, dt):
        self.trace.append(('init_acc', float(t), float(dt)))

    def step(self, t, dt):
        self.nsteps += 1
        if self.nsteps > self.cap:
            raise TooManySteps()
        self.trace.append(('step', float(t), float(dt)))

    def compute_time_step(self, dt, cfl):
        if not self.script:
            v = None
        else:
            v = self.script[self.k % len(self.script)]
            self.k += 1
        self.trace.append(('cts', float(dt), v))
        return v


def run_solver(c):
    from pysph.solver.solver import Solver
    trace = []
    smin = min([s for s in c['script'] if s is not None] + [c['dt']])
    cap = int(4 * (c['tf'] / smin + c['n_damp'] * 8 +
                   len(c['output_at_times']) + 2) + 100)
    integ = StubIntegrator(trace, c['script'], cap)
    if c.get('setters') is None:
        s = Solver(dim=1, integrator=integ, tf=c['tf'], dt=c['dt'],
                   n_damp=c['n_damp'],
                   adaptive_timestep=c['adaptive'] != 'off',
                   cfl=c['cfl'], output_at_times=c['output_at_times'],
                   pfreq=c['pfreq'])
    else:
        s = Solver(dim=1, integrator=integ, tf=c['tf_before'],
                   dt=c['dt'] * 3.0, pfreq=c['pfreq'] + 1)
        calls = [lambda: s.set_final_time(c['tf']),
                 lambda: s.set_output_at_times(c['output_at_times']),
                 lambda: s.set_time_step(c['dt']),
                 lambda: s.set_print_freq(c['pfreq']),
                 lambda: s.set_n_damp(c['n_damp']),
                 lambda: s.set_cfl(c['cfl']),
                 lambda: s.set_adaptive_timestep(c['adaptive'] != 'off')]
        for i in c['setters']:
            calls[i]()
    if c['max_steps'] is not None:
        s.set_max_steps(c['max_steps'])
    s.particles = []

    def rec_dump():
        trace.append(('dump', float(s.t), int(s.count),
                      {k: float(v) for k, v in s._get_solver_data().items()}))
    s.dump_output = rec_dump
    s.add_pre_step_callback(
        lambda sol: trace.append(('pre', float(sol.t), int(sol.count))))
    s.add_post_step_callback(
        lambda sol: trace.append(('post', float(sol.t), int(sol.count))))
    s.add_pre_step_callback(
        lambda sol: trace.append(('pre2', float(sol.t), int(sol.count))))
    status = 'returned'
    try:
        s.solve(show_progress=False)
    except TooManySteps:
        status = 'no-termination'
    return trace, status, dict(t=float(s.t), count=int(s.count), cap=cap)


def damp_factor(count, n_damp):
    if count < n_damp and n_damp > 0:
        return 0.5 * (math.sin(math.pi * (-0.5 + (count + 1) / float(n_damp)))
                      + 1.0)
    return 1.0


# ---------------------------------------------------------- trace checker
def check_trace(c, trace, status, final):
    """Return list of (mechanism key, message)."""
    bad = []
    tf, dt0 = c['tf'], c['dt']
    steps = [e for e in trace if e[0] == 'step']
    dumps = [e for e in trace if e[0] == 'dump']
    n = len(steps)
    if status != 'returned':
        bad.append(('no-termination',
                    'solve() took more than %d steps' % final['cap']))
        return bad
    tol = lambda cnt: 8 * EPS * tf * max(cnt, 1)   # noqa: E731
    # count = number of steps
    if final['count'] != n:
        bad.append(('count', 'count %d != steps %d' % (final['count'], n)))
    # termination at tf (or max_steps)
    ended_by_max = c['max_steps'] is not None and n >= c['max_steps'] and \
        abs(final['t'] - tf) > tol(n)
    if c['max_steps'] is not None and n > c['max_steps']:
        bad.append(('max-steps', '%d steps > max_steps %d' % (
            n, c['max_steps'])))
    if not ended_by_max and abs(final['t'] - tf) > tol(n):
        bad.append(('final-time', 'final t=%r tf=%r diff=%g tol=%g' % (
            final['t'], tf, final['t'] - tf, tol(n))))
    # strict increase, dt>0, continuity
    t_prev = 0.0
    for k, (_, t, dt) in enumerate(steps):
        if not dt > 0:
            bad.append(('dt-nonpositive', 'step %d dt=%r' % (k, dt)))
            break
        if k and not t > steps[k - 1][1]:
            bad.append(('time-not-increasing', 'step %d t=%r prev=%r' % (
                k, t, steps[k - 1][1])))
            break
        if abs(t - t_prev) > tol(k):
            bad.append(('time-discontinuous', 'step %d starts at %r, previous '
                        'ended at %r' % (k, t, t_prev)))
            break
        t_prev = t + dt
    # nominal step in force
    nominal = dt0
    si = 0
    cts = [e for e in trace if e[0] == 'cts']
    adaptive = c['adaptive'] != 'off'
    nominals = []
    ci = 0
    for k, (_, t, dt) in enumerate(steps):
        if adaptive:
            if ci < len(cts):
                v = cts[ci][2]
                ci += 1
                if v is not None:
                    nominal = v
        f = damp_factor(k, c['n_damp'])
        nominals.append(nominal)
        if dt > nominal * f * (1 + 1e-9):
            bad.append(('step-exceeds-nominal',
                        'step %d dt=%r > nominal %r * damping %r' % (
                            k, dt, nominal, f)))
            break
    # callbacks: pre, pre2, step, post once per step in this order
    seq = [e[0] for e in trace if e[0] in ('pre', 'pre2', 'step', 'post')]
    if seq != ['pre', 'pre2', 'step', 'post'] * n:
        bad.append(('callbacks', 'callback/step sequence is not '
                    '(pre pre2 step post)*%d: %s...' % (n, seq[:12])))
    else:
        pres = [e for e in trace if e[0] == 'pre']
        posts = [e for e in trace if e[0] == 'post']
        for k in range(n):
            if pres[k][2] != k or posts[k][2] != k:
                bad.append(('callbacks', 'callback %d saw count %d/%d' % (
                    k, pres[k][2], posts[k][2])))
                break
    # dumps: first at (0,0), last at the end
    if not dumps or dumps[0][1] != 0.0 or dumps[0][2] != 0:
        bad.append(('no-initial-dump', 'first dump %r' % (dumps[:1],)))
    if not dumps or dumps[-1][2] != final['count'] or \
            dumps[-1][1] != final['t'] or trace[-1][0] != 'dump':
        bad.append(('no-final-dump', 'last event %r' % (trace[-1:],)))
    dump_counts = set(d[2] for d in dumps)
    for cnt in range(0, n + 1, c['pfreq']):
        if cnt not in dump_counts:
            bad.append(('pfreq-dump-missing', 'no dump at count %d (pfreq %d)'
                        % (cnt, c['pfreq'])))
            break
    # requested times
    ends = [(s[1] + s[2]) for s in steps]      # time after step k
    t_end = final['t']
    for tau in c['output_at_times']:
        if not (0 < tau < tf - tol(n)):
            continue
        if tau > t_end + tol(n):
            continue        # run ended early (max_steps)
        # find the step that first reaches tau
        k = None
        for j, e in enumerate(ends):
            if e >= tau - tol(j + 1):
                k = j
                break
        if k is None:
            continue
        e = ends[k]
        if e > tau + tol(k + 1):
            start = steps[k][1]
            key = 'output-time-skipped'
            if k == 0:
                key = 'output-time-inside-first-step-skipped'
            bad.append((key, 'requested time %r: step %d goes from %r to %r '
                        '(tol %g)' % (tau, k, start, e, tol(k + 1))))
            continue
        # a dump at that time
        if not any(abs(d[1] - tau) <= tol(k + 1) for d in dumps):
            bad.append(('output-time-not-dumped', 'step %d ends at %r within '
                        'tolerance of requested %r but no dump there' % (
                            k, e, tau)))
    # recorded dt is the nominal one
    for d in dumps[1:-1] if not ended_by_max else dumps[1:-1]:
        cnt = d[2]
        if cnt >= n:
            continue
        rec = d[3]['dt']
        nxt = steps[cnt]           # the step taken right after this dump
        lands_tf = abs(nxt[1] + nxt[2] - tf) <= tol(cnt + 1)
        if lands_tf:
            continue               # final step: not an "output time"
        want = nominals[cnt]
        f = damp_factor(cnt, c['n_damp'])
        if d[1] + want * f > tf - tol(cnt + 1):
            continue               # step in force is the one clipped to tf
        if abs(rec - want) > 1e-9 * want:
            shortened = nxt[2] < want * f * (1 - 1e-9)
            key = 'recorded-dt-not-nominal'
            if shortened and abs(rec * f - nxt[2]) <= 1e-9 * nxt[2]:
                key = 'recorded-dt-is-shortened-step'
            bad.append((key, 'dump at count %d t=%r records dt=%r, nominal '
                        'step is %r (next step dt=%r, damping %r)' % (
                            cnt, d[1], rec, want, nxt[2], f)))
            break
    return bad


def features(c, n):
    return (c['kind'], c['adaptive'], c['n_damp'] > 0, c['pfreq'] > n,
            c['max_steps'] is not None, len(c['output_at_times']) > 2)


# ------------------------------------------------------------------ worker
def work(item):
    seed = item['seed']
    res = dict(evaluations=0, distinct=[], violations=[], samples=[],
               counters=dict(steps=0, dumps=0, requested_times=0,
                             callbacks=0, ended_by_max_steps=0,
                             configured_by_setters=0), sets={})
    feats = set()
    for idx in range(item['lo'], item['hi']):
        c = gen_case(seed, idx)
        trace, status, final = run_solver(c)
        bad = check_trace(c, trace, status, final)
        n = sum(1 for e in trace if e[0] == 'step')
        res['evaluations'] += 1
        res['counters']['steps'] += n
        res['counters']['dumps'] += sum(1 for e in trace if e[0] == 'dump')
        res['counters']['requested_times'] += len(c['output_at_times'])
        res['counters']['configured_by_setters'] += int(
            c.get('setters') is not None)
        res['counters']['callbacks'] += sum(
            1 for e in trace if e[0] in ('pre', 'post'))
        if n >= 3 and (c['output_at_times'] or c['adaptive'] != 'off' or
                       c['n_damp']):
            res['distinct'].append(common.digest(c))
        feats.add(repr(features(c, n)))
        for key, msg in bad:
            res['violations'].append(dict(key=key, what=msg, case=c))
        if idx == item['lo'] and item['lo'] % 4000 == 0:
            res['samples'].append(dict(case=c, n_steps=n,
                                       trace_head=trace[:8]))
    res['sets']['feature_vectors'] = sorted(feats)
    return res


# ------------------------------------------------------------------ driver
def run(tier):
    T = common.Timer()
    seed = common.seed()
    n = 20000 if tier == 'quick' else 400000
    items = [dict(seed=seed, lo=a, hi=b, flavour='plain')
             for a, b in harness.chunks(n, 500 if tier == 'quick' else 4000)]
    m = harness.execute('checks.c10', items, timeout=1800)
    v = common.Verdict(PROP)
    return harness.finish(
        PROP, tier, 'exploration', m, v, T,
        rule='cases = random (dt, tf, pfreq, output_at_times, n_damp, '
             'adaptive script, max_steps) from (VERIF_SEED, index); each runs '
             'the real Solver.solve() with a recording stub integrator and '
             'the recorded trace is checked offline; non-trivial = at least 3 '
             'steps and at least one of output times / adaptive / damping; '
             'distinct = digest of the case parameters',
        assumptions=['stub integrator stands in for the compiled one: the '
                     'loop only calls step/initial_acceleration/'
                     'compute_time_step on it',
                     'dump_output is replaced on the instance by a recorder '
                     '(no files written)'],
        min_evaluations=1000, min_distinct=100)


def replay(path):
    with open(path) as fp:
        r = json.load(fp)
    from vlib import runner
    res = runner.run_one('checks.c10', dict(replay_case=r['case']))
    print(json.dumps(res, indent=1)[:4000])
    return 1 if res.get('violations') else 0


_orig_work = work


def work(item):  # noqa: F811
    if 'replay_case' in item:
        c = item['replay_case']
        trace, status, final = run_solver(c)
        bad = check_trace(c, trace, status, final)
        return dict(evaluations=1, violations=[dict(key=k, what=w, case=c)
                                               for k, w in bad],
                    trace=trace[:200])
    return _orig_work(item)
