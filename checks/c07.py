"""C07 - periodic and mirror domains create exactly the right ghosts.

Reference-model monitor: after every move-then-update round of the real
DomainManager (driven through NNPS.update_domain) the arrays are compared
with the product-rule image set computed in numpy; replayed under ASan."""
import itertools
import json

import numpy as np

from vlib import common, harness

PROP = 'C07'
GHOST = 2
VEL = {'x': 'u', 'y': 'v', 'z': 'w'}
AX = 'xyz'


def gen_case(seed, idx):
    rng = np.random.default_rng(common.case_seed(PROP, seed, idx))
    dim = int(rng.integers(1, 4))
    mode = str(rng.choice(['periodic', 'periodic', 'mirror', 'mixed']))
    kinds = []
    for a in range(dim):
        if mode == 'periodic':
            kinds.append(str(rng.choice(['p', 'p', 'n'])))
        elif mode == 'mirror':
            kinds.append(str(rng.choice(['m', 'm', 'n'])))
        else:
            kinds.append(str(rng.choice(['p', 'm', 'n'])))
    if all(k == 'n' for k in kinds):
        kinds[int(rng.integers(dim))] = 'p' if mode != 'mirror' else 'm'
    kinds += ['n'] * (3 - dim)
    rs = float(rng.choice([2.0, 3.0]))
    n_layers = float(rng.choice([1.0, 1.5, 2.0, 3.0]))
    hmax = float(10 ** rng.uniform(-2, 0))
    layer = n_layers * rs * hmax
    lo = rng.uniform(-2, 2, size=3) * float(rng.choice([1, 1, 50]))
    L = layer * rng.uniform(2.2, 6.0, size=3)
    for a in range(dim):
        # thin slabs between two mirror walls: a particle can be within the
        # ghost layer of both walls of an axis (one image per wall)
        if kinds[a] == 'm' and rng.random() < 0.35:
            L[a] = layer * rng.uniform(1.15, 1.95)
    hi = lo + L
    narr = int(rng.choice([1, 2, 2, 3]))
    arrays = []
    for a in range(narr):
        n = int(rng.integers(1, 40))
        pos = np.zeros((n, 3))
        for k in range(dim):
            pos[:, k] = rng.uniform(lo[k], hi[k], size=n)
            # special placements
            for i in range(n):
                r = rng.random()
                if r < 0.06:
                    pos[i, k] = lo[k]
                elif r < 0.12:
                    pos[i, k] = hi[k]
                elif r < 0.16:
                    pos[i, k] = np.nextafter(lo[k], np.inf)
                elif r < 0.20:
                    pos[i, k] = np.nextafter(hi[k], -np.inf)
                elif r < 0.30:
                    pos[i, k] = lo[k] + rng.uniform(0, layer)
                elif r < 0.40:
                    pos[i, k] = hi[k] - rng.uniform(0, layer)
        for k in range(dim):
            if kinds[k] == 'm':
                # a particle exactly on a mirror face coincides with its own
                # image (two ghosts at one place, distinguishable only by the
                # sign of a velocity): keep mirror points off the faces
                e = 1e-6 * L[k]
                pos[:, k] = np.clip(pos[:, k], lo[k] + e, hi[k] - e)
        for k in range(dim, 3):
            pos[:, k] = 0.5 * (lo[k] + hi[k])
        hmode = rng.choice(['const', 'var'])
        h = np.full(n, hmax) if hmode == 'const' else \
            hmax * rng.uniform(0.3, 1.0, size=n)
        arrays.append(dict(name='a%d' % a, pos=pos, h=h))
    # at least one particle carries hmax so that the layer is as planned
    arrays[0]['h'][0] = hmax
    pk = str(rng.choice(['none', 'list', 'dict']))
    base = ['x', 'y', 'z', 'u', 'v', 'w', 'h', 'm', 'uid']
    extra = ['rho', 'p', 's3', 'i1']
    if pk == 'none':
        props = None
    elif pk == 'list':
        props = base + [e for e in extra if rng.random() < 0.5]
    else:
        props = {a['name']: base + [e for e in extra if rng.random() < 0.5]
                 for a in arrays}
    late = 0 if (narr > 1 and rng.random() < 0.3) else None
    return dict(idx=idx, dim=dim, kinds=kinds, rs=rs, n_layers=n_layers,
                late=late,
                hmax=hmax, lo=lo.tolist(), hi=hi.tolist(), props=props,
                rounds=int(rng.integers(1, 6)),
                move_seed=int(rng.integers(1 << 60))), arrays


def build(case, arrays):
    from pysph.base.utils import get_particle_array
    from pysph.base.nnps import DomainManager, LinkedListNNPS
    rng = np.random.default_rng(case['move_seed'] + 17)
    pas = []
    uid0 = 0
    held = {}
    for ai, a in enumerate(arrays):
        n = len(a['h'])
        data = dict(
            x=a['pos'][:, 0].copy(), y=a['pos'][:, 1].copy(),
            z=a['pos'][:, 2].copy(), h=a['h'].copy(),
            u=rng.normal(size=n), v=rng.normal(size=n), w=rng.normal(size=n),
            m=rng.uniform(1, 2, size=n), rho=rng.uniform(1, 2, size=n),
            p=rng.normal(size=n))
        extra = dict(uid=np.arange(uid0, uid0 + n),
                     s3=rng.normal(size=3 * n),
                     i1=rng.integers(1, 99, size=n))
        uid0 += n
        if case.get('late') == ai:
            # an array that is empty when the neighbour search is built and
            # is filled afterwards (an inlet's fluid); it carries the
            # largest smoothing length
            held[ai] = dict(data, **extra)
            data = {k_: v_[:0] for k_, v_ in data.items()}
            extra = {k_: v_[:0] for k_, v_ in extra.items()}
        pa = get_particle_array(name=a['name'], **data)
        pa.add_property('uid', type='long', data=extra['uid'])
        pa.add_property('s3', stride=3, default=-7.0, data=extra['s3'])
        pa.add_property('i1', type='int', default=-3, data=extra['i1'])
        pas.append(pa)
    case['_held'] = held
    k = case['kinds']
    lo, hi = case['lo'], case['hi']
    dm = DomainManager(
        xmin=lo[0], xmax=hi[0], ymin=lo[1], ymax=hi[1], zmin=lo[2],
        zmax=hi[2], periodic_in_x=k[0] == 'p', periodic_in_y=k[1] == 'p',
        periodic_in_z=k[2] == 'p', mirror_in_x=k[0] == 'm',
        mirror_in_y=k[1] == 'm', mirror_in_z=k[2] == 'm',
        n_layers=case['n_layers'], props=case['props'])
    nn = LinkedListNNPS(dim=case['dim'], particles=pas, domain=dm,
                        radius_scale=case['rs'])
    return pas, nn


def table(pa):
    n = pa.get_number_of_particles()
    return {p: pa.get(p, only_real_particles=False).reshape(
        n, pa.stride.get(p, 1)).copy() for p in pa.properties}


def copy_list(case, name, pa):
    pr = case['props']
    if pr is None:
        return None
    return pr[name] if isinstance(pr, dict) else pr


class Bad(Exception):
    def __init__(self, key, what):
        Exception.__init__(self, what)
        self.key, self.what = key, what


def check_round(case, pas, before, where, mon):
    """before: per array dict(uid -> row dict) of the *real* particles as they
    were handed to the update (positions possibly outside the box)."""
    lo, hi = np.array(case['lo']), np.array(case['hi'])
    L = hi - lo
    kinds = case['kinds']
    allh = np.concatenate([pa.get('h', only_real_particles=False)
                           for pa in pas])
    layer = case['n_layers'] * case['rs'] * float(allh.max())
    if layer < 1e-6 * case['n_layers']:
        layer = case['n_layers'] * 1.0
    tolL = 1e-12 * np.maximum(L, 1.0)
    for ai, pa in enumerate(pas):
        t = table(pa)
        n = pa.get_number_of_particles()
        nr = pa.num_real_particles
        tag = t['tag'][:, 0]
        if np.any(tag[:nr] != 0) or np.any(tag[nr:] == 0):
            raise Bad('alignment', '%s array %d: tags not aligned' % (where,
                                                                      ai))
        real = {int(t['uid'][i, 0]): i for i in range(nr)}
        b = before[ai]
        if sorted(real) != sorted(b):
            raise Bad('real-set-changed', '%s array %d: real uids %d -> %d'
                      % (where, ai, len(b), len(real)))
        # (1) real particles: wrapped, everything else untouched
        xs = {}
        for u, i in real.items():
            for p in t:
                if p in ('x', 'y', 'z'):
                    continue
                if t[p][i].tobytes() != b[u][p].tobytes():
                    raise Bad('real-property-changed', '%s array %d: real '
                              'particle uid=%d property %s %r -> %r' % (
                                  where, ai, u, p, b[u][p].tolist(),
                                  t[p][i].tolist()))
            pos = np.array([t[c][i, 0] for c in AX])
            old = np.array([b[u][c][0] for c in AX])
            for k in range(3):
                d = pos[k] - old[k]
                if kinds[k] == 'p':
                    q = d / L[k]
                    if abs(q - round(q)) > 1e-9 or abs(round(q)) > 1:
                        raise Bad('wrap-shift', '%s array %d uid=%d axis %s: '
                                  '%r -> %r is not a shift by 0 or +-L=%r' % (
                                      where, ai, u, AX[k], old[k], pos[k],
                                      L[k]))
                    if not (lo[k] - tolL[k] <= pos[k] <= hi[k] + tolL[k]):
                        raise Bad('not-wrapped', '%s array %d uid=%d axis %s:'
                                  ' %r outside [%r, %r] after the update' % (
                                      where, ai, u, AX[k], pos[k], lo[k],
                                      hi[k]))
                elif d != 0.0:
                    raise Bad('real-moved', '%s array %d uid=%d axis %s '
                              'changed %r -> %r' % (where, ai, u, AX[k],
                                                    old[k], pos[k]))
            xs[u] = pos
            mon['real_checked'] = mon.get('real_checked', 0) + 1
        # (2) expected images
        act = [k for k in range(3) if kinds[k] != 'n']
        must, may = {}, {}
        for u, pos in xs.items():
            opts = []
            for k in act:
                o = [(0, True, True)]
                dl = pos[k] - lo[k]
                dh = hi[k] - pos[k]
                # low face -> image on the high side (+1), and vice versa
                if dl <= layer + tolL[k]:
                    o.append((+1, dl <= layer - tolL[k], True))
                if dh <= layer + tolL[k]:
                    o.append((-1, dh <= layer - tolL[k], True))
                opts.append(o)
            for combo in itertools.product(*opts):
                s = tuple(c[0] for c in combo)
                if all(v == 0 for v in s):
                    continue
                img = pos.copy()
                for k, sv in zip(act, s):
                    if sv == 0:
                        continue
                    if kinds[k] == 'p':
                        img[k] = pos[k] + sv * L[k]
                    else:
                        # low face (sv=+1 in the table above means "near the
                        # low face"): reflect in that face
                        img[k] = 2 * lo[k] - pos[k] if sv == +1 else \
                            2 * hi[k] - pos[k]
                key = (u, s)
                may[key] = img
                if all(c[1] for c in combo):
                    must[key] = img
        # observed ghosts
        seen = {}
        cl = copy_list(case, pa.name, pa)
        anymirror = any(kinds[k] == 'm' for k in range(3))
        for i in range(nr, n):
            if tag[i] != GHOST:
                raise Bad('ghost-tag', '%s array %d: particle %d beyond the '
                          'real ones has tag %d' % (where, ai, i, tag[i]))
            u = int(t['uid'][i, 0])
            gp = np.array([t[c][i, 0] for c in AX])
            if u not in xs:
                raise Bad('ghost-of-unknown', '%s array %d: ghost uid=%d has '
                          'no real original in this array' % (where, ai, u))
            best = None
            for (uu, s), img in may.items():
                if uu != u or (uu, s) in seen:
                    continue
                if np.all(np.abs(img - gp) <= 4 * tolL + 1e-12 * np.abs(gp)):
                    best = (uu, s)
                    break
            if best is None:
                dup = [k for k in seen if k[0] == u and np.all(
                    np.abs(may[k] - gp) <= 4 * tolL + 1e-12 * np.abs(gp))]
                if dup:
                    raise Bad('ghost-duplicated', '%s array %d: image %s of '
                              'uid=%d present twice' % (where, ai, dup[0][1],
                                                        u))
                raise Bad('ghost-misplaced', '%s array %d: ghost of uid=%d at '
                          '%r is not one of its admissible images (original '
                          'at %r, box %r..%r, layer %g, kinds %s)' % (
                              where, ai, u, gp.tolist(), xs[u].tolist(),
                              lo.tolist(), hi.tolist(), layer, kinds))
            seen[best] = i
            mon['ghosts_checked'] = mon.get('ghosts_checked', 0) + 1
            # properties of the image
            src = real[u]
            s = dict(zip(act, best[1]))
            for p in t:
                if p in ('x', 'y', 'z', 'tag'):
                    continue
                want = t[p][src]
                mirrored_here = False
                if p in ('u', 'v', 'w'):
                    k = 'uvw'.index(p)
                    if kinds[k] == 'm' and s.get(k, 0) != 0:
                        want = -want
                        mirrored_here = True
                # mirror images copy every property of what they reflect;
                # what they reflect is the original, or - for an image that
                # is also periodic - a periodic ghost, which only carries the
                # copied properties
                has_m = any(kinds[k] == 'm' and sv != 0
                            for k, sv in zip(act, best[1]))
                has_p = any(kinds[k] == 'p' and sv != 0
                            for k, sv in zip(act, best[1]))
                copied = (cl is None) or (p in cl) or (has_m and not has_p)
                if copied:
                    if t[p][i].tobytes() != want.tobytes() and not (
                            mirrored_here and np.array_equal(t[p][i], want)):
                        raise Bad('ghost-property', '%s array %d: image %s of '
                                  'uid=%d has %s=%r, original %r%s' % (
                                      where, ai, best[1], u, p,
                                      t[p][i].tolist(), t[p][src].tolist(),
                                      ' (negated)' if mirrored_here else ''))
                elif p not in ('gid', 'pid'):
                    dv = pa.default_values[p]
                    if not np.all(t[p][i] == dv):
                        raise Bad('ghost-default', '%s array %d: image of '
                                  'uid=%d has non-copied %s=%r, default %r'
                                  % (where, ai, u, p, t[p][i].tolist(), dv))
        missing = [k for k in must if k not in seen]
        if missing:
            u, s = missing[0]
            raise Bad('ghost-missing', '%s array %d: image %s of uid=%d '
                      '(original at %r, box %r..%r, layer %g, kinds %s) is '
                      'missing; %d missing in all' % (
                          where, ai, s, u, xs[u].tolist(), lo.tolist(),
                          hi.tolist(), layer, kinds, len(missing)))
        mon['arrays_checked'] = mon.get('arrays_checked', 0) + 1
    return True


def _is_mirror_image(s, act, kinds):
    return any(kinds[k] == 'm' and sv != 0 for k, sv in zip(act, s))


def real_rows(pa):
    t = table(pa)
    nr = pa.num_real_particles
    return {int(t['uid'][i, 0]): {p: t[p][i].copy() for p in t}
            for i in range(nr)}


def run_case(case, arrays, mon):
    pas, nn = build(case, arrays)
    rng = np.random.default_rng(case['move_seed'])
    lo, hi = np.array(case['lo']), np.array(case['hi'])
    L = hi - lo
    # what the constructor's own domain update saw
    before = []
    for a in arrays:
        pass
    # round 0: the constructor has already updated; rebuild "before" from the
    # generator's data (uid order = creation order)
    uid0 = 0
    before = []
    for ai, (a, pa) in enumerate(zip(arrays, pas)):
        rr = real_rows(pa)
        if ai not in case['_held']:
            for j, u in enumerate(range(uid0, uid0 + len(a['h']))):
                for k, c in enumerate(AX):
                    rr[u][c] = np.array([a['pos'][j, k]])
        uid0 += len(a['h'])
        before.append(rr)
    check_round(case, pas, before, 'after construction', mon)
    settled = True      # ghosts correspond to the present real particles
    for ai, d in case['_held'].items():
        pas[ai].add_particles(**d)
        settled = False
        mon['late_filled_arrays'] = mon.get('late_filled_arrays', 0) + 1
    for r in range(case['rounds']):
        kind = str(rng.choice(['move', 'move', 'none', 'addprop']))
        for pa in pas:
            nr = pa.num_real_particles
            if kind == 'move':
                for k in range(case['dim']):
                    arr = pa.get(AX[k])
                    step = rng.normal(0, 0.15, size=nr) * L[k]
                    if case['kinds'][k] == 'm':
                        # stay inside a mirror box
                        e = 1e-6 * L[k]
                        new = np.clip(arr + step, lo[k] + e, hi[k] - e)
                        arr[:] = new
                    elif case['kinds'][k] == 'p':
                        step = np.clip(step, -0.45 * L[k], 0.45 * L[k])
                        arr[:] = arr + step
                    else:
                        arr[:] = arr + step
            elif kind == 'addprop' and 'late' not in pa.properties:
                npa = pa.get_number_of_particles()
                pa.add_property('late', default=5.0,
                                data=rng.normal(size=npa))
                # properties of other element types added after the domain
                # manager has built its scratch arrays
                pa.add_property('late_i', type='int', default=-2,
                                data=rng.integers(1, 1000, size=npa))
                pa.add_property('late_l', type='long', default=-4,
                                data=rng.integers(1000, 10 ** 6, size=npa))
                mon['late_typed_props'] = mon.get('late_typed_props', 0) + 1
        before = [real_rows(pa) for pa in pas]
        counts = [pa.get_number_of_particles() for pa in pas]
        nn.update_domain()
        nn.update()
        check_round(case, pas, before, 'round %d (%s)' % (r, kind), mon)
        was_settled, settled = settled, True
        if kind == 'none' and was_settled:
            c2 = [pa.get_number_of_particles() for pa in pas]
            if c2 != counts:
                raise Bad('not-idempotent', 'round %d: update without motion '
                          'changed the particle counts %s -> %s' % (
                              r, counts, c2))
        mon['rounds'] = mon.get('rounds', 0) + 1


def work(item):
    mon = {}
    viol = []
    distinct = []
    samples = []
    sets = dict(kinds=set())
    idxs = [item['replay_idx']] if 'replay_idx' in item else \
        range(item['lo'], item['hi'])
    for idx in idxs:
        case, arrays = gen_case(item['seed'], idx)
        sets['kinds'].add('%dD:%s:%s' % (case['dim'], ''.join(case['kinds']),
                                         type(case['props']).__name__))
        try:
            run_case(case, arrays, mon)
        except Bad as e:
            key = classify(e.key, case, arrays)
            if sum(1 for v in viol if v['key'] == key) < 2:
                viol.append(dict(key=key, what=e.what, case=dict(
                    idx=idx, kinds=case['kinds'], narrays=len(arrays))))
            mon['violating_cases'] = mon.get('violating_cases', 0) + 1
        except Exception as e:
            key = 'raises:%s' % type(e).__name__
            if sum(1 for v in viol if v['key'] == key) < 2:
                viol.append(dict(key=key, what=repr(e)[:400], case=dict(
                    idx=idx, kinds=case['kinds'], narrays=len(arrays))))
        distinct.append('%d' % idx)
        if idx % 100 == 0 and len(samples) < 2:
            c = dict(case)
            samples.append(dict(case=c, n=[len(a['h']) for a in arrays]))
    return dict(evaluations=len(list(idxs)), distinct=distinct,
                violations=viol, counters=mon, samples=samples,
                sets={k: sorted(v) for k, v in sets.items()})


def classify(key, case, arrays):
    mirror = any(k == 'm' for k in case['kinds'])
    if mirror and len(arrays) > 1 and key in ('ghost-misplaced',
                                              'ghost-missing',
                                              'ghost-duplicated'):
        return 'mirror:%s:second-array' % key
    return ('mirror:' if mirror else 'periodic:') + key


def run(tier):
    T = common.Timer()
    n = 320 if tier == 'quick' else 6000
    items = [dict(seed=common.seed(), lo=a, hi=b, flavour='plain')
             for a, b in harness.chunks(n, 20 if tier == 'quick' else 100)]
    na = 80 if tier == 'quick' else 800
    items += [dict(seed=common.seed() + 3, lo=a, hi=b, flavour='asan')
              for a, b in harness.chunks(na, 10 if tier == 'quick' else 50)]
    m = harness.execute('checks.c07', items, timeout=1800)
    v = common.Verdict(PROP)
    cov = harness.san_violations(m, v)
    for key in ('ghosts_checked', 'real_checked', 'rounds'):
        if m.counters.get(key, 0) < 100:
            v.inconclusive_because('monitor %s fired %d times' % (
                key, m.counters.get(key, 0)))
    return harness.finish(
        PROP, tier, 'exploration', m, v, T,
        rule='case = box (random offset, period >= 2.2 ghost layers), per-'
             'axis periodic / mirror / none flags in 1-3 D, n_layers in '
             '{1,1.5,2,3}, radius_scale, 1-3 arrays with points on, one ulp '
             'inside and near the faces, variable h, copied-property subsets '
             'as None / list / dict, then 1-5 rounds of move / no-op / add-a-'
             'property followed by update_domain; after the constructor and '
             'every round the real particles and the ghost set are compared '
             'with the product-rule image set; distinct = case index',
        assumptions=['period >= 2.2 ghost layers on every active axis (one '
                     'image per direction suffices)',
                     'particles leave a periodic box by less than one period '
                     'and stay inside a mirror box',
                     'threshold band 1e-12 of the period on the layer test'],
        extra_cov=cov, min_evaluations=100, min_distinct=50)


def replay(path):
    with open(path) as fp:
        r = json.load(fp)
    from vlib import runner
    res = runner.run_one('checks.c07', dict(replay_idx=r['case']['idx'],
                                            seed=common.seed()))
    print(json.dumps(res, indent=1)[:5000])
    return 1 if res.get('violations') else 0
