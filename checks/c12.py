"""C12 - every shipped scheme yields a complete, generatable simulation.

For every Scheme class with setup_properties and a grid of its option
vectors the monitor (1) resolves every name the live equation and stepper
objects need against the live particle arrays, (2) runs the real code
generator, (3) for a sample compiles the module and takes three steps,
checking that every property stays finite."""
import argparse
import inspect
import itertools
import json

import numpy as np

from vlib import common, harness, eqcatalog as ec

PROP = 'C12'
NUM2 = {'nu': (0.0, 0.01), 'alpha': (0.0, 0.1), 'beta': (0.0, 0.1),
        'tdamp': (0.0, 1e-3), 'eps': (0.0, 0.1), 'delta': (0.1,),
        'gx': (0.0,), 'gy': (0.0, -1.0), 'gz': (0.0,), 'g1': (0.0, 0.2),
        'g2': (0.0, 0.4), 'pb': (0.0, 1.0), 'p0': (1.0,), 'pref': (None, 1.0)}
SKIP = ('SchemeChooser',)
# Compile-and-run (level 3) needs physically sensible initial data.  With the
# generic block used here (uniform rho, m, p, e; the *0 copies initialised)
# these schemes go non-finite inside their first step on the unchanged tree,
# which says nothing decidable about the scheme (their examples initialise
# more state by hand); for them only name resolution and code generation are
# asserted.  Listed, never silently dropped: see evidence 'run_not_asserted'.
RUN_NOT_ASSERTED = {
    'PCISPHScheme': 'diverges in step 1 with generic data (positions become '
                    'NaN; LinkedListNNPS then indexes out of bounds)',
    'GasDScheme': 'diverges in step 1 with generic data (adaptive-h '
                  'iteration state not initialised by setup_properties)',
}


def scheme_classes():
    from pysph.sph.scheme import Scheme
    out = {}
    for n, c in ec.subclasses_of(Scheme).items():
        if c.__name__ in SKIP:
            continue
        if any('setup_properties' in b.__dict__ for b in c.__mro__
               if b is not Scheme and b is not object):
            out[n] = c
    return out


def user_choices(cls, base_kw):
    """choices= lists of add_user_options, keyed by dest."""
    try:
        s = cls(**base_kw)
        p = argparse.ArgumentParser()
        s.add_user_options(p.add_argument_group('x'))
    except Exception:
        return {}
    out = {}
    for a in p._actions:
        if a.choices:
            out[a.dest] = sorted(a.choices, key=str)
    return out


def factors(cls, dim, with_solids):
    spec = inspect.getfullargspec(cls.__init__)
    names = spec.args[1:]
    defaults = dict(zip(names[len(names) - len(spec.defaults or ()):],
                        spec.defaults or ()))
    base = {}
    fac = {}
    for a in names:
        if a in ('fluids', 'elastic_solids'):
            base[a] = ['fluid']
        elif a == 'solids':
            base[a] = ['solid'] if with_solids else []
        elif a == 'dim':
            base[a] = dim
        elif a in defaults and isinstance(defaults[a], bool):
            base[a] = defaults[a]
            fac[a] = (False, True)
        elif a in NUM2:
            vals = tuple(v for v in NUM2[a]
                         if v is not None or defaults.get(a, 0) is None)
            base[a] = defaults.get(a, vals[0]) if a in defaults else vals[0]
            if base[a] is None and None not in vals:
                vals = (None,) + vals
            if len(vals) > 1:
                fac[a] = vals
        elif a in defaults:
            base[a] = defaults[a]
        elif a in ec.RECIPE:
            base[a] = ec.RECIPE[a]
        else:
            base[a] = 1.0
    ch = user_choices(cls, base)
    mapped = getattr(cls(**base), 'rsolver_choices', None)
    for a, vals in ch.items():
        if a in base and a not in fac:
            if a in ('rsolver', 'interpolation', 'monotonicity'):
                m = getattr(cls(**base), a + '_choices')
                fac[a] = tuple(sorted(m.values()))
            else:
                fac[a] = tuple(vals)
    return base, fac


def vectors(cls, dim, with_solids, rng, budget):
    base, fac = factors(cls, dim, with_solids)
    keys = sorted(fac)
    total = 1
    for k in keys:
        total *= len(fac[k])
    out = [dict(base)]
    # every single departure from the defaults
    for k in keys:
        for v in fac[k]:
            if v != base[k]:
                d = dict(base)
                d[k] = v
                out.append(d)
    if total <= budget:
        out = []
        for combo in itertools.product(*[fac[k] for k in keys]):
            d = dict(base)
            d.update(dict(zip(keys, combo)))
            out.append(d)
        exhaustive = True
    else:
        exhaustive = False
        while len(out) < budget:
            d = dict(base)
            for k in keys:
                d[k] = fac[k][int(rng.integers(len(fac[k])))]
            out.append(d)
    uniq = {}
    for d in out:
        uniq[json.dumps(d, sort_keys=True, default=str)] = d
    return list(uniq.values()), total, exhaustive


def make_arrays(dim, with_solids, cls):
    from pysph.base.utils import get_particle_array
    n = 5
    dx = 0.1
    ax = [np.arange(n) * dx] * dim
    g = np.stack(np.meshgrid(*ax, indexing='ij'), -1).reshape(-1, dim)
    pos = np.zeros((len(g), 3))
    pos[:, :dim] = g + 0.013 * np.sin(7.0 * g)      # not a perfect lattice
    kw = dict(x=pos[:, 0], y=pos[:, 1], z=pos[:, 2], h=1.3 * dx,
              m=dx ** dim, rho=1.0, p=1.0, e=1.0, cs=1.0,
              u=0.01 * pos[:, 1], v=-0.01 * pos[:, 0])
    pas = [get_particle_array(name='fluid', **kw)]
    if with_solids:
        s = np.zeros((n, 3))
        s[:, 0] = np.arange(n) * dx
        if dim > 1:
            s[:, 1] = -dx
        else:
            s[:, 0] = -dx * (1 + np.arange(n))
        pas.append(get_particle_array(name='solid', x=s[:, 0], y=s[:, 1],
                                      z=s[:, 2], h=1.3 * dx, m=dx ** dim,
                                      rho=1.0))
    return pas


def flatten(eqs):
    from pysph.sph.equation import Group, MultiStageEquations
    out = []
    if isinstance(eqs, MultiStageEquations):
        for g in eqs.groups:
            out += flatten(g)
        return out
    for e in eqs:
        if isinstance(e, Group):
            out += flatten(e.equations)
        elif isinstance(e, (list, tuple)):
            out += flatten(e)
        else:
            out.append(e)
    return out


class Bad(Exception):
    def __init__(self, key, what):
        Exception.__init__(self, what)
        self.key, self.what = key, what


def resolve_names(pas, eqs, integrator):
    byname = {pa.name: pa for pa in pas}

    def have(pa):
        return set(pa.properties) | set(pa.constants)
    n = 0
    for eq in flatten(eqs):
        d, s, imp = ec.needed_names(eq)
        cname = eq.__class__.__name__
        if eq.dest not in byname:
            raise Bad('unknown-array', '%s: destination %r' % (cname,
                                                               eq.dest))
        miss = (d | (imp if eq.sources else set())) - have(byname[eq.dest])
        if miss:
            raise Bad('missing-property:%s:%s' % (cname, ','.join(sorted(
                miss))), '%s needs %s of destination %r' % (
                cname, sorted(miss), eq.dest))
        for src in (eq.sources or []):
            if src not in byname:
                raise Bad('unknown-array', '%s: source %r' % (cname, src))
            miss = (s | imp) - have(byname[src])
            if miss:
                raise Bad('missing-property:%s:%s' % (cname, ','.join(
                    sorted(miss))), '%s needs %s of source %r' % (
                    cname, sorted(miss), src))
        n += 1
    for name, st in integrator.steppers.items():
        if name not in byname:
            raise Bad('unknown-array', 'stepper for %r' % name)
        need = set()
        for m in dir(st):
            if m == 'initialize' or (m.startswith('stage') and
                                     m[5:].isdigit()):
                for a in inspect.getfullargspec(getattr(st, m)).args:
                    if a.startswith('d_') and a != 'd_idx':
                        need.add(a[2:])
        miss = need - have(byname[name])
        if miss:
            raise Bad('missing-stepper-property', '%s needs %s of %r' % (
                st.__class__.__name__, sorted(miss), name))
        n += 1
    return n


SHARED_EXTRA_STEPPERS = {}
_ICH = {}


def integrator_choices(cls):
    """[None (the scheme's default)] + the Integrator classes the scheme's
    configure_solver names (those are the ones it is written to handle)."""
    if cls not in _ICH:
        import re
        import sys
        from pysph.sph.integrator import Integrator
        out = [None]
        try:
            src = inspect.getsource(cls.configure_solver)
            mod = sys.modules[cls.__module__]
            for nm in sorted(set(re.findall(r'\b(\w+Integrator)\b', src))):
                c = getattr(mod, nm, None)
                if inspect.isclass(c) and issubclass(c, Integrator) and \
                        c is not Integrator:
                    out.append(c)
        except (OSError, TypeError):
            pass
        _ICH[cls] = out
    return _ICH[cls]


class NonFinite(Exception):
    pass


def one_vector(cls, kw, dim, with_solids, clean, level, mon):
    """level: 1 = name resolution, 2 = + code generation, 3 = + compile and
    three steps."""
    import io
    import contextlib
    from pysph.sph.acceleration_eval import AccelerationEval
    from pysph.sph.sph_compiler import SPHCompiler
    buf = io.StringIO()
    try:
        with contextlib.redirect_stdout(buf):
            scheme = cls(**kw)
            ckw = dict(dt=1e-5, tf=3e-5, pfreq=1000000)
            cands = integrator_choices(cls)
            pick = cands[mon.get('level1', 0) % len(cands)]
            cargs = inspect.getfullargspec(cls.configure_solver).args
            if pick is not None and 'integrator_cls' in cargs:
                ckw['integrator_cls'] = pick
                mon['integrator_cls_given'] = mon.get(
                    'integrator_cls_given', 0) + 1
            if 'extra_steppers' in cargs:
                # one dict handed to every configure_solver call of this
                # worker, as a module-level constant in a user script would be
                ckw['extra_steppers'] = SHARED_EXTRA_STEPPERS
            scheme.configure_solver(**ckw)
            pas = make_arrays(dim, with_solids, cls)
            scheme.setup_properties(pas, clean=clean)
            eqs = scheme.get_equations()
            solver = scheme.get_solver()
            solver.pm = None          # what Application does for serial runs
    except (ValueError, NotImplementedError, AssertionError) as e:
        mon['refused_combinations'] = mon.get('refused_combinations', 0) + 1
        mon.setdefault('_refusals', set()).add('%s: %s: %s' % (
            cls.__name__, type(e).__name__, str(e)[:100]))
        return 'refused'
    n = resolve_names(pas, eqs, solver.integrator)
    # the same arrays with a user constant (get_particle_array(constants=
    # {'alpha': 1.0}), as its docstring shows) named like something the
    # scheme keeps per particle: the property has to be there all the same
    k_ = mon.get('level1', 0)
    plain = make_arrays(dim, with_solids, cls)
    added = sorted(set(pas[0].properties) - set(plain[0].properties))
    if added and k_ % 3 == 0:
        nm_ = added[(k_ // 3) % len(added)]
        plain[0].add_constant(nm_, [1.0])
        try:
            with contextlib.redirect_stdout(buf):
                scheme.setup_properties(plain, clean=clean)
        except BaseException as e:
            raise Bad('constant-collision:raises', 'setup_properties on an '
                      'array with a constant %r: %s: %s' % (
                          nm_, type(e).__name__, str(e)[:200]))
        mon['constant_twins'] = mon.get('constant_twins', 0) + 1
        lost = sorted(set(pas[0].properties) - set(plain[0].properties))
        if lost:
            raise Bad('property-shadowed-by-constant', '%s: array with a '
                      'user constant %r does not get the per-particle '
                      'properties %s' % (cls.__name__, nm_, lost))
    if k_ % 3 == 1:
        # the same scheme reached through the shipped SchemeChooser, on
        # arrays that carry a property of the user's own: the chooser has to
        # leave the arrays exactly as the scheme itself does (clean or not)
        from pysph.sph.scheme import SchemeChooser
        direct = make_arrays(dim, with_solids, cls)
        via = make_arrays(dim, with_solids, cls)
        for pa_ in direct + via:
            pa_.add_property('zz_user_age')
        try:
            with contextlib.redirect_stdout(buf):
                scheme.setup_properties(direct, clean=clean)
                SchemeChooser(default='s', s=scheme).setup_properties(
                    via, clean=clean)
        except BaseException as e:
            raise Bad('chooser:raises', 'setup_properties through a '
                      'SchemeChooser: %s: %s' % (type(e).__name__,
                                                 str(e)[:200]))
        mon['chooser_twins'] = mon.get('chooser_twins', 0) + 1
        for a_, b_ in zip(direct, via):
            if set(a_.properties) != set(b_.properties):
                raise Bad('chooser:properties-differ', '%s clean=%s: array '
                          '%r set up through SchemeChooser differs in %s'
                          % (cls.__name__, clean, a_.name, sorted(
                              set(a_.properties) ^ set(b_.properties))))
    from vlib import stepkit
    integ = solver.integrator
    called = stepkit.timestep_calls(type(integ))['stages']
    have = set()
    for st in integ.steppers.values():
        have |= set(stepkit.stage_methods(st))
        have |= {h[3:] for h in stepkit.py_hooks(st)}
    if not called <= have:
        raise Bad('stage-not-defined', '%s.one_timestep calls %s but the '
                  'steppers %s define only %s' % (
                      type(integ).__name__, sorted(called - have),
                      sorted({type(x).__name__
                              for x in integ.steppers.values()}),
                      sorted(have)))
    if SHARED_EXTRA_STEPPERS:
        leaked = sorted(SHARED_EXTRA_STEPPERS)
        SHARED_EXTRA_STEPPERS.clear()
        raise Bad('extra-steppers-mutated', 'configure_solver wrote %s into '
                  'the extra_steppers dict it was given' % leaked)
    mon['names_resolved_objects'] = mon.get('names_resolved_objects', 0) + n
    mon['level1'] = mon.get('level1', 0) + 1
    if level < 2:
        return 'ok'
    try:
        with contextlib.redirect_stdout(buf):
            from pysph.sph.acceleration_eval import make_acceleration_evals
            aes = make_acceleration_evals(pas, eqs, solver.kernel)
            comp = SPHCompiler(aes, solver.integrator)
            code = comp._get_code()
    except BaseException as e:
        raise Bad('code-generation:%s' % type(e).__name__,
                  '%s' % (str(e)[:300] or buf.getvalue()[-300:]))
    mon['level2'] = mon.get('level2', 0) + 1
    mon.setdefault('_codes', set()).add(common.digest(code))
    if level < 2.5:
        return 'ok'
    if cls.__name__ in RUN_NOT_ASSERTED and level != 2.5:
        mon['level3_not_asserted'] = mon.get('level3_not_asserted', 0) + 1
        mon.setdefault('_refusals', set()).add('%s: run not asserted: %s' % (
            cls.__name__, RUN_NOT_ASSERTED[cls.__name__]))
        return 'ok'
    from pysph.base.nnps import LinkedListNNPS
    # what every example does after setup_properties: the "initial value"
    # copies (h0, rho0, m0, ...) start equal to the value itself
    for pa in pas:
        for p in list(pa.properties):
            if p.endswith('0') and p[:-1] in pa.properties and \
                    pa.stride.get(p, 1) == pa.stride.get(p[:-1], 1) and \
                    pa.properties[p].get_c_type() == 'double':
                pa.get(p, only_real_particles=False)[:] = pa.get(
                    p[:-1], only_real_particles=False)
    # ... and the wall's number density where the scheme leaves it to the
    # user (the TVF / EDAC examples set solid.V = 1/volume by hand)
    for pa in pas:
        if pa.name == 'solid' and 'V' in pa.properties and \
                not pa.get('V', only_real_particles=False).any():
            pa.get('V', only_real_particles=False)[:] = pa.get(
                'rho', only_real_particles=False) / pa.get(
                    'm', only_real_particles=False)
    if level == 2.5:
        # compile the whole problem, do not run it
        try:
            with contextlib.redirect_stdout(buf):
                nn = LinkedListNNPS(dim=dim, particles=pas,
                                    radius_scale=solver.kernel.radius_scale)
                solver.setup(pas, eqs, nn, solver.kernel)
        except SystemExit:
            raise Bad('compile-failed', buf.getvalue()[-1500:])
        except ModuleNotFoundError as e:
            mon['level3_needs_missing_module'] = mon.get(
                'level3_needs_missing_module', 0) + 1
            return 'ok'
        except Exception as e:
            raise Bad('compile:%s' % type(e).__name__, str(e)[:300])
        mon['compiled_only'] = mon.get('compiled_only', 0) + 1
        return 'ok'
    try:
        with contextlib.redirect_stdout(buf):
            nn = LinkedListNNPS(dim=dim, particles=pas,
                                radius_scale=solver.kernel.radius_scale)
            solver.setup(pas, eqs, nn, solver.kernel)

            def finite_or_stop(t, dt, stage):
                # positions that went NaN would crash the neighbour search
                # at the next update: stop at the stage that produced them
                for pa in pas:
                    for p in ('x', 'y', 'z', 'h'):
                        if not np.all(np.isfinite(pa.get(
                                p, only_real_particles=False))):
                            raise NonFinite('%s.%s after stage %d of the '
                                            'step at t=%g' % (pa.name, p,
                                                              stage, t))
            solver.add_post_stage_callback(finite_or_stop)
            solver.set_disable_output(True)
            solver.set_max_steps(3)
            solver.solve(show_progress=False)
    except NonFinite as e:
        raise Bad('non-finite', 'non-finite %s' % e)
    except SystemExit:
        raise Bad('compile-failed', buf.getvalue()[-1500:])
    except ModuleNotFoundError as e:
        # e.g. the ISPH pressure solver wants scipy, which this sandbox
        # does not have: not decidable here
        mon['level3_needs_missing_module'] = mon.get(
            'level3_needs_missing_module', 0) + 1
        mon.setdefault('_refusals', set()).add('%s: needs %s' % (
            cls.__name__, e.name))
        return 'ok'
    except Exception as e:
        raise Bad('run:%s' % type(e).__name__, str(e)[:300])
    for pa in pas:
        for p, arr in pa.properties.items():
            a = arr.get_npy_array()
            if a.dtype.kind == 'f' and not np.all(np.isfinite(a)):
                raise Bad('non-finite', 'after 3 steps %s.%s has non-finite '
                          'values' % (pa.name, p))
    mon['level3'] = mon.get('level3', 0) + 1
    return 'ok'


def dims_for(cls):
    n = cls.__name__
    if n in ('GSPHScheme', 'ADKEScheme', 'GasDScheme'):
        return (1, 2)
    return (2, 3) if n not in ('CRKSPHScheme',) else (2,)


def work(item):
    mon = {}
    viol = []
    distinct = []
    samples = []
    classes = scheme_classes()
    rng = np.random.default_rng(common.case_seed(PROP, item['seed'],
                                                 item['scheme'],
                                                 item['dim'], item['solids']))
    cls = classes[item['scheme']]
    has_solids_arg = 'solids' in inspect.getfullargspec(cls.__init__).args
    if item['solids'] and not has_solids_arg:
        return dict(evaluations=0, counters=mon)
    vecs, total, exhaustive = vectors(cls, item['dim'], item['solids'], rng,
                                      item['budget'])
    if item.get('only_run') and item.get('rich'):
        # compile-and-run of a vector with every two-valued numeric option
        # (viscosity, artificial viscosity, damping, gravity ...) switched
        # on, so that the equations those options add are executed too
        base, fac = factors(cls, item['dim'], item['solids'])
        rich = dict(base)
        for k_ in sorted(fac):
            if k_ in NUM2 and k_ not in ('pb',):
                rich[k_] = fac[k_][-1]
        vecs = [rich] + [v_ for v_ in vecs if v_ != rich][
            :max(0, item['n_run'] - 1)]
    if item.get('departures'):
        # every single departure of a boolean option from the defaults is
        # compiled (generated code that names the right properties can
        # still fail to compile: a property of the wrong type, ...)
        base, fac = factors(cls, item['dim'], item['solids'])
        if item.get('rich'):
            # ... on top of the vector with the numeric options on, and run:
            # pairs (boolean option, viscosity / damping / ...) meet
            base = dict(base)
            for k_ in sorted(fac):
                if k_ in NUM2 and k_ not in ('pb',):
                    base[k_] = fac[k_][-1]
        vecs = []
        for k_ in sorted(fac):
            if all(isinstance(v_, bool) for v_ in fac[k_]):
                d_ = dict(base)
                d_[k_] = not base[k_]
                vecs.append(d_)
        vecs = [v_ for i_, v_ in enumerate(vecs)
                if i_ % item['of'] == item['part']]
    mon['grid_total'] = total
    mon['grid_exhaustive_parts'] = int(exhaustive)
    nl2 = item['n_codegen']
    nl3 = item['n_run']
    order = list(range(len(vecs)))
    for j, vi in enumerate(order):
        kw = vecs[vi]
        clean = bool((j + item['dim']) % 2)
        level = 3 if j < nl3 else (2 if j < nl2 else 1)
        if item.get('departures'):
            level = 3 if (item.get('rich') and cls.__name__ not in
                          RUN_NOT_ASSERTED) else 2.5
        case = dict(scheme=item['scheme'], dim=item['dim'],
                    solids=item['solids'], clean=clean,
                    options={k: v for k, v in kw.items()
                             if k not in ('fluids', 'solids', 'dim')})
        try:
            r = one_vector(cls, kw, item['dim'], item['solids'], clean, level,
                           mon)
            if r == 'ok':
                distinct.append(common.digest(case))
        except Bad as e:
            key = '%s:%s' % (cls.__name__, e.key)
            if sum(1 for v in viol if v['key'] == key) < 2:
                viol.append(dict(key=key, what=e.what, case=case))
            mon['violating_vectors'] = mon.get('violating_vectors', 0) + 1
        except Exception as e:
            import traceback
            key = '%s:setup-raises:%s' % (cls.__name__, type(e).__name__)
            if sum(1 for v in viol if v['key'] == key) < 2:
                viol.append(dict(key=key, what=traceback.format_exc()[-700:],
                                 case=case))
            mon['violating_vectors'] = mon.get('violating_vectors', 0) + 1
        if j == 0:
            samples.append(case)
    sets = dict(refusals=sorted(mon.pop('_refusals', set())),
                generated_sources=sorted(mon.pop('_codes', set())))
    return dict(evaluations=len(vecs), distinct=distinct, violations=viol,
                counters=mon, samples=samples[:1], sets=sets)


def run(tier):
    T = common.Timer()
    seed = common.seed()
    items = []
    # the class list is computed in a worker (needs pysph); use the names
    names = ['pysph.sph.gas_dynamics.magma2.MAGMA2Scheme',
             'pysph.sph.gas_dynamics.psph.PSPHScheme',
             'pysph.sph.gas_dynamics.tsph.TSPHScheme',
             'pysph.sph.iisph.IISPHScheme',
             'pysph.sph.isph.isph.ISPHScheme',
             'pysph.sph.isph.sisph.SISPHScheme',
             'pysph.sph.scheme.ADKEScheme',
             'pysph.sph.scheme.AdamiHuAdamsScheme',
             'pysph.sph.scheme.GSPHScheme',
             'pysph.sph.scheme.GasDScheme',
             'pysph.sph.scheme.TVFScheme',
             'pysph.sph.scheme.WCSPHScheme',
             'pysph.sph.wc.crksph.CRKSPHScheme',
             'pysph.sph.wc.edac.EDACScheme',
             'pysph.sph.wc.gtvf.GTVFScheme',
             'pysph.sph.wc.pcisph.PCISPHScheme']
    quick = tier == 'quick'
    for n in names:
        # compile-and-run first (longest), one item per scheme so that the
        # 16 compilers work side by side
        items.append(dict(seed=seed, scheme=n, dim=2, solids=False,
                          budget=1 if quick else 6, n_codegen=0,
                          n_run=1 if quick else 6, only_run=True,
                          flavour='plain', timeout=3000))
    for n in names:
        items.append(dict(seed=seed, scheme=n, dim=2, solids=True,
                          budget=1 if quick else 6, n_codegen=0,
                          n_run=1 if quick else 6, only_run=True, rich=True,
                          flavour='plain', timeout=3000))
        # ... and the default vector (inviscid, no damping) with a solid
        items.append(dict(seed=seed, scheme=n, dim=2, solids=True,
                          budget=1 if quick else 6, n_codegen=0,
                          n_run=1 if quick else 6, only_run=True,
                          flavour='plain', timeout=3000))
    for n in names:
        for part in range(2):
            # quick: each boolean departure on top of the numeric options,
            # compiled and run; thorough: also from the defaults, compiled
            items.append(dict(seed=seed, scheme=n, dim=2, solids=False,
                              budget=1, n_codegen=0, n_run=0, only_run=True,
                              departures=True, rich=True, part=part, of=2,
                              flavour='plain', timeout=3000))
            if not quick:
                items.append(dict(seed=seed, scheme=n, dim=2, solids=False,
                                  budget=1, n_codegen=0, n_run=0,
                                  only_run=True, departures=True, part=part,
                                  of=2, flavour='plain', timeout=3000))
    for n in names:
        for dim in (1, 2, 3):
            for solids in (False, True):
                items.append(dict(
                    seed=seed, scheme=n, dim=dim, solids=solids,
                    budget=40 if quick else 2000,
                    n_codegen=2 if quick else 200, n_run=0,
                    flavour='plain', timeout=3000))
    m = harness.execute('checks.c12', items, timeout=3000)
    v = common.Verdict(PROP)
    for key in ('level1', 'level2', 'level3'):
        if m.counters.get(key, 0) < (10 if key == 'level3' else 100):
            v.inconclusive_because('%s reached %d times' % (
                key, m.counters.get(key, 0)))
    return harness.finish(
        PROP, tier, 'exploration', m, v, T,
        rule='case = (scheme class, dim, with/without a solid array, clean, '
             'option vector); option vectors = defaults, every single '
             'departure, and the full product of boolean / enumerated / two-'
             'valued numeric options when it has <= budget members, else a '
             'seeded sample; every vector gets name resolution on the live '
             'objects, the first n get real code generation, the first few a '
             'compile + 3 steps + finiteness check; non-trivial = set-up '
             'succeeded; distinct = digest of the case',
        assumptions=['a combination the scheme itself refuses with '
                     'ValueError / NotImplementedError / AssertionError is '
                     'counted as refused, not as a violation',
                     'dimensions a scheme is not written for show up as '
                     'refusals or are skipped by signature',
                     'plain get_particle_array inputs on a 5^dim block'],
        min_evaluations=200, min_distinct=100)


def replay(path):
    with open(path) as fp:
        r = json.load(fp)
    print(json.dumps(r, indent=1)[:3000])
    return 1
