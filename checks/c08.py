"""C08 - every SPH kernel is normalised, compactly supported, self-consistent.

Oracles (all independent of the kernel source): Gauss-Legendre quadrature per
polynomial piece, the derivative of a Chebyshev interpolant of the *observed*
W on each piece, the scaling law W(lr, lh) = l^-d W(r, h), and the compiled
twins from c_kernels compared call by call."""
import json
import math

import numpy as np

from vlib import common, harness

PROP = 'C08'

# name -> (dims accepted, piece boundaries in q, family)
KERNELS = {
    'CubicSpline': ((1, 2, 3), (0.0, 1.0, 2.0), 'poly'),
    'WendlandQuinticC2_1D': ((1,), (0.0, 2.0), 'poly'),
    'WendlandQuintic': ((2, 3), (0.0, 2.0), 'poly'),
    'WendlandQuinticC4_1D': ((1,), (0.0, 2.0), 'poly'),
    'WendlandQuinticC4': ((2, 3), (0.0, 2.0), 'poly'),
    'WendlandQuinticC6_1D': ((1,), (0.0, 2.0), 'poly'),
    'WendlandQuinticC6': ((2, 3), (0.0, 2.0), 'poly'),
    'Gaussian': ((1, 2, 3), (0.0, 3.0), 'gauss'),
    'SuperGaussian': ((1, 2, 3), (0.0, 3.0), 'supergauss'),
    'QuinticSpline': ((1, 2, 3), (0.0, 1.0, 2.0, 3.0), 'poly'),
}
SURF = {1: 2.0, 2: 2.0 * math.pi, 3: 4.0 * math.pi}


def up(x):
    return float(np.nextafter(x, np.inf))


def dn(x):
    return float(np.nextafter(x, -np.inf))


class Mon(object):
    def __init__(self):
        self.viol = []
        self.cnt = {}

    def c(self, k, n=1):
        self.cnt[k] = self.cnt.get(k, 0) + n

    def bad(self, key, what, case):
        if sum(1 for v in self.viol if v['key'] == key) < 3:
            self.viol.append(dict(key=key, what=what, case=case))
        self.c('violating_observations')


def unit(rng, dim):
    # arbitrary separation directions: half of the time the separation also
    # has components outside the kernel's own dimension (r is the full
    # distance; the gradient is dW/dr times the full unit vector)
    if dim < 3 and rng.random() < 0.5:
        dim = 3
    v = np.zeros(3)
    v[:dim] = rng.normal(size=dim)
    n = np.linalg.norm(v)
    if n == 0:
        v[0] = 1.0
        n = 1.0
    return v / n


POISON = (7.25e3, -3.5e3, 1.125e3)


def grad_of(k, x, r, h):
    # the output array holds the result of some earlier pair, as it does in
    # the generated loops (one DWIJ scratch array for all neighbours): what
    # comes back must depend on the inputs only
    g = list(POISON)
    k.gradient(list(x), r, h, g)
    return g


def check_kernel(mon, name, dim, h, rng, tier):
    from pysph.base import kernels as K
    dims, bounds, fam = KERNELS[name]
    k = getattr(K, name)(dim=dim)
    rs = k.radius_scale
    case = dict(kernel=name, dim=dim, h=h)
    scaleW = abs(k.kernel([0, 0, 0], 0.0, h))     # W(0)
    scaleD = scaleW / h
    if not (scaleW > 0 and math.isfinite(scaleW)):
        mon.bad('W0:%s' % name, 'W(0,h)=%r' % scaleW, case)
        return
    if rs != bounds[-1]:
        mon.bad('radius-scale:%s' % name, 'radius_scale %r, last piece '
                'boundary %r' % (rs, bounds[-1]), case)
    # ---- (1) compact support: at the edge, one ulp either side, far out
    edge = rs * h
    for r in (edge, up(edge), up(up(edge)), 1.0000001 * edge, 1.02 * edge,
              1.1 * edge, 1.25 * edge, 1.4 * edge, 1.5 * edge, 2 * edge,
              3 * edge, 10 * edge, 1e6 * edge):
        q = r * (1.0 / h)
        if q < rs:
            continue        # rounding of r/h puts it inside: not asserted
        d = unit(rng, dim)
        w = k.kernel(list(d * r), r, h)
        g = grad_of(k, d * r, r, h)
        dw = k.dwdq(r, h)
        gh = k.gradient_h(list(d * r), r, h)
        mon.c('support_points')
        tolw = 1e-13 * scaleW
        if abs(w) > tolw or max(abs(c) for c in g) > 1e-13 * scaleD or \
                abs(dw) > 1e-13 * scaleW:
            mon.bad('support:%s' % name, 'at r=%r (q=%r >= %r) W=%r grad=%r '
                    'dwdq=%r' % (r, q, rs, w, g, dw), case)
        if q > rs and abs(gh) > 1e-13 * scaleD:
            mon.bad('support-gradh:%s' % name, 'gradient_h(r=%r)=%r outside '
                    'the support' % (r, gh), case)
    # just inside the edge the kernel must not be negative (except SG)
    # ---- (2) non-negative, non-increasing on a grid + piece boundaries
    n = 4000 if tier == 'thorough' else 1500
    qs = list(np.linspace(0.0, rs * 1.02, n))
    for b in bounds:
        qs += [b, up(b), dn(b)] if b > 0 else [b, up(b)]
    qs = sorted(set(q for q in qs if q >= 0))
    prev = None
    for q in qs:
        r = q * h
        w = k.kernel([r, 0, 0], r, h)
        mon.c('grid_points')
        if not math.isfinite(w):
            mon.bad('nonfinite:%s' % name, 'W(q=%r)=%r' % (q, w), case)
            break
        if fam != 'supergauss':
            if w < -1e-15 * scaleW:
                mon.bad('negative:%s' % name, 'W(q=%r)=%r' % (q, w), case)
                break
            if prev is not None and w > prev[1] + 4e-15 * scaleW:
                mon.bad('increasing:%s' % name, 'W(q=%r)=%r > W(q=%r)=%r' % (
                    q, w, prev[0], prev[1]), case)
                break
        prev = (q, w)
    # ---- (3) integral = 1, per piece Gauss-Legendre
    gx, gw = np.polynomial.legendre.leggauss(24)
    total = 0.0
    for a, b in zip(bounds[:-1], bounds[1:]):
        sub = [(a, b)] if fam == 'poly' else \
            [(a + (b - a) * i / 6.0, a + (b - a) * (i + 1) / 6.0)
             for i in range(6)]
        for lo, hi in sub:
            for x, wgt in zip(gx, gw):
                q = 0.5 * (hi - lo) * x + 0.5 * (hi + lo)
                r = q * h
                w = k.kernel([r, 0, 0], r, h)
                total += wgt * 0.5 * (hi - lo) * h * w * SURF[dim] * \
                    r ** (dim - 1)
    mon.c('integrals')
    if fam == 'poly':
        tol_int = 2e-12
    else:
        # truncation of the Gaussian family at q = 3 (documented)
        tol_int = {1: 5e-5, 2: 3e-4, 3: 1e-3}[dim] * \
            (8.0 if fam == 'supergauss' else 1.0)
    if not abs(total - 1.0) <= tol_int:
        mon.bad('normalisation:%s' % name, 'integral over space = %r '
                '(tolerance %g)' % (total, tol_int), case)
    # ---- (4,5) derivative: Chebyshev interpolant of observed W per piece
    for a, b in zip(bounds[:-1], bounds[1:]):
        deg = 24 if fam == 'poly' else 48
        nodes = np.cos(np.pi * (np.arange(deg + 1) + 0.5) / (deg + 1))
        qn = 0.5 * (b - a) * nodes + 0.5 * (b + a)
        wn = np.array([k.kernel([q * h, 0, 0], q * h, h) for q in qn])
        coef = np.polynomial.chebyshev.chebfit(nodes, wn, deg)
        dcoef = np.polynomial.chebyshev.chebder(coef)
        test_q = list(rng.uniform(a, b, size=12)) + [
            up(a) if a > 0 else 1e-3, dn(b), 0.5 * (a + b)]
        if a == 0:
            test_q += [1e-4, 1e-2]
        for q in test_q:
            r = q * h
            if r <= 2e-12:
                continue
            qq = r * (1.0 / h)
            if not (a <= qq <= b) or qq >= rs:
                # r/h rounded onto/over the piece or truncation edge: that is
                # the neighbouring piece's (or the support check's) business
                mon.c('piece_edge_rounded_out')
                continue
            x = (2 * qq - (a + b)) / (b - a)
            dWdq = float(np.polynomial.chebyshev.chebval(x, dcoef)) * \
                2.0 / (b - a)            # derivative of W wrt q
            dWdr = dWdq / h
            d = unit(rng, dim)
            g = grad_of(k, d * r, r, h)
            mon.c('gradient_points')
            err = max(abs(g[i] - dWdr * d[i]) for i in range(3))
            if not err <= 2e-8 * scaleD:
                mon.bad('gradient:%s' % name, 'q=%r dir=%r: gradient=%r, '
                        'dW/dr * unit = %r (err %g, scale %g)' % (
                            q, list(d), g, list(dWdr * d), err, scaleD), case)
            dw = k.dwdq(r, h)
            if not abs(dw - dWdq) <= 2e-8 * scaleW:
                mon.bad('dwdq:%s' % name, 'q=%r dwdq=%r, h*dW/dr=%r' % (
                    q, dw, dWdq), case)
            # (6) gradient_h via the scaling law (checked separately below)
            W = k.kernel(list(d * r), r, h)
            want = -(dim * W + qq * dWdq) / h
            gh = k.gradient_h(list(d * r), r, h)
            mon.c('gradient_h_points')
            if not abs(gh - want) <= 2e-8 * scaleD * max(1.0, rs):
                mon.bad('gradient_h:%s' % name, 'q=%r gradient_h=%r, dW/dh '
                        'from scaling law and observed W = %r' % (
                            q, gh, want), case)
            # scaling law itself, exact for powers of two
            lam = 2.0 ** int(rng.integers(-8, 9))
            W2 = k.kernel(list(d * r * lam), r * lam, h * lam)
            if not abs(W2 * lam ** dim - W) <= 1e-13 * scaleW:
                mon.bad('scaling:%s' % name, 'W(lr,lh)*l^d=%r, W(r,h)=%r '
                        '(l=%r)' % (W2 * lam ** dim, W, lam), case)
            # direct numerical dW/dh away from piece boundaries
            if min(abs(qq - bb) for bb in bounds) > 0.05:
                e = 1e-4 * h

                def Wh(hh):
                    return k.kernel(list(d * r), r, hh)
                d1 = (Wh(h + e) - Wh(h - e)) / (2 * e)
                d2 = (Wh(h + 2 * e) - Wh(h - 2 * e)) / (4 * e)
                num = (4 * d1 - d2) / 3.0
                mon.c('gradient_h_fd_points')
                if not abs(gh - num) <= 1e-6 * scaleD * max(1.0, rs):
                    mon.bad('gradient_h-fd:%s' % name, 'q=%r gradient_h=%r, '
                            'finite difference in h = %r' % (q, gh, num),
                            case)
    # gradient at r = 0
    g0 = grad_of(k, [0.0, 0.0, 0.0], 0.0, h)
    mon.c('gradient_points')
    if any(c != 0.0 for c in g0) or k.dwdq(0.0, h) != 0.0:
        mon.bad('gradient-origin:%s' % name, 'gradient(0)=%r dwdq(0)=%r' % (
            g0, k.dwdq(0.0, h)), case)
    # ---- (7) compiled twins
    twins(mon, name, dim, h, k, rng, tier, case, scaleW, scaleD)


def ulps(a, b):
    if a == b:
        return 0.0
    if not (math.isfinite(a) and math.isfinite(b)):
        return float('inf')
    m = max(abs(a), abs(b))
    return abs(a - b) / (np.spacing(m) or 5e-324)


def twins(mon, name, dim, h, k, rng, tier, case, scaleW, scaleD):
    from pysph.base import c_kernels
    from pysph.base.kernels import get_compiled_kernel
    ck = getattr(c_kernels, name)(**k.__dict__)
    wr = get_compiled_kernel(k)
    rs = k.radius_scale
    n = 400 if tier == 'thorough' else 120
    bounds = KERNELS[name][1]
    for i in range(n):
        if i % 5 == 0:
            q = float(rng.choice(bounds)) * float(rng.choice(
                [1.0, 1 - 1e-16, 1 + 3e-16]))
        else:
            q = float(rng.uniform(0, rs * 1.1))
        d = unit(rng, dim)
        x = d * q * h
        r = math.sqrt(float(x[0] * x[0] + x[1] * x[1] + x[2] * x[2]))
        xl = [float(v) for v in x]
        py = [k.kernel(xl, r, h), k.dwdq(r, h), k.gradient_h(xl, r, h)] + \
            grad_of(k, xl, r, h)
        xa = np.array(xl)
        ga = np.array(POISON)
        ck.py_gradient(xa, r, h, ga)
        cy = [ck.py_kernel(xa, r, h), ck.py_dwdq(r, h),
              ck.py_gradient_h(xa, r, h)] + list(ga)
        mon.c('twin_calls')
        for lab, a, b, sc in zip(
                ('kernel', 'dwdq', 'gradient_h', 'gx', 'gy', 'gz'), py, cy,
                (scaleW, scaleW, scaleD, scaleD, scaleD, scaleD)):
            if ulps(a, float(b)) > 8 and abs(a - b) > 1e-15 * sc:
                mon.bad('twin:%s' % name, '%s: python %r, c_kernels %r at '
                        'q=%r' % (lab, a, b, q), case)
        # wrapper: positions instead of separations
        o = rng.normal(size=3) * h
        xi = o + x
        wk = wr.kernel(xi[0], xi[1], xi[2], o[0], o[1], o[2], h)
        wg = wr.gradient(xi[0], xi[1], xi[2], o[0], o[1], o[2], h)
        xs = [float((xi - o)[j]) for j in range(3)]
        rr = math.sqrt(xs[0] * xs[0] + xs[1] * xs[1] + xs[2] * xs[2])
        pk = k.kernel(xs, rr, h)
        pg = grad_of(k, xs, rr, h)
        mon.c('wrapper_calls')
        if ulps(pk, wk) > 8 and abs(pk - wk) > 1e-15 * scaleW:
            mon.bad('wrapper:%s' % name, 'kernel: python %r wrapper %r' % (
                pk, wk), case)
        for a, b in zip(pg, wg):
            if ulps(a, b) > 8 and abs(a - b) > 1e-15 * scaleD:
                mon.bad('wrapper:%s' % name, 'gradient: python %r wrapper %r'
                        % (pg, wg), case)
    if abs(ck.py_get_deltap() - k.get_deltap()) > 0:
        mon.bad('twin:%s' % name, 'get_deltap differs', case)
    if wr.radius_scale != k.radius_scale or ck.radius_scale != k.radius_scale:
        mon.bad('twin:%s' % name, 'radius_scale differs', case)


def reject_dims(mon):
    """Constructors must refuse the dimensions they do not implement (they do
    so with ValueError) - otherwise a later 'fac' is simply missing."""
    from pysph.base import kernels as K
    for name, (dims, _, _) in KERNELS.items():
        for dim in (1, 2, 3):
            if dim in dims:
                continue
            try:
                k = getattr(K, name)(dim=dim)
            except ValueError:
                mon.c('unsupported_dim_refused')
                continue
            # accepted: then it must behave like a kernel (has fac)
            if not hasattr(k, 'fac'):
                mon.c('unsupported_dim_accepted_without_fac')


def work(item):
    mon = Mon()
    distinct = []
    samples = []
    for (name, dim, h, sd) in item['cases']:
        rng = np.random.default_rng(sd)
        check_kernel(mon, name, dim, h, rng, item['tier'])
        distinct.append('%s/%d/%r' % (name, dim, h))
        if len(samples) < 1:
            samples.append(dict(kernel=name, dim=dim, h=h))
    if item.get('first'):
        reject_dims(mon)
    return dict(evaluations=len(item['cases']), distinct=distinct,
                violations=mon.viol, counters=mon.cnt, samples=samples,
                sets=dict(kernel_dim=['%s/%d' % (c[0], c[1])
                                      for c in item['cases']]))


def run(tier):
    T = common.Timer()
    seed = common.seed()
    rng = np.random.default_rng(common.case_seed(PROP, seed))
    nh = 6 if tier == 'quick' else 40
    cases = []
    for name, (dims, _, _) in sorted(KERNELS.items()):
        for dim in dims:
            hs = [1.0, 1e-6, 1e6] + [float(10 ** rng.uniform(-6, 6))
                                     for _ in range(nh - 3)]
            for h in hs:
                cases.append((name, dim, h, int(rng.integers(1 << 60))))
    items = []
    per = 3 if tier == 'quick' else 8
    for i in range(0, len(cases), per):
        items.append(dict(cases=cases[i:i + per], tier=tier, flavour='plain',
                          first=(i == 0)))
    m = harness.execute('checks.c08', items, timeout=1800)
    v = common.Verdict(PROP)
    nk = len(m.sets.get('kernel_dim', ()))
    want = sum(len(d[0]) for d in KERNELS.values())
    if nk < want:
        v.inconclusive_because('only %d of %d (kernel, dim) pairs were '
                               'evaluated' % (nk, want))
    for key in ('support_points', 'grid_points', 'integrals',
                'gradient_points', 'gradient_h_points', 'twin_calls',
                'wrapper_calls'):
        if m.counters.get(key, 0) < 50:
            v.inconclusive_because('monitor %s fired %d times' % (
                key, m.counters.get(key, 0)))
    return harness.finish(
        PROP, tier, 'exploration', m, v, T,
        rule='case = (kernel class, supported dim, h) with h in {1, 1e-6, 1e6}'
             ' and log-uniform in [1e-6, 1e6]; per case: support edge +-ulp, '
             'a q-grid incl. every piece boundary +-ulp, Gauss-Legendre '
             'integral per piece, Chebyshev-interpolant derivative at random '
             'and boundary q with random directions, scaling law, dW/dh, and '
             'the compiled twins (c_kernels class + Wrapper) on random and '
             'boundary arguments; all cases distinct by construction',
        assumptions=['r >= 2e-12 for gradient comparisons (the kernels return '
                     'a zero gradient for r <= 1e-12 regardless of h)',
                     'Gaussian family: integral asserted to the documented '
                     'truncation at q=3 only'],
        min_evaluations=want, min_distinct=want)


def replay(path):
    with open(path) as fp:
        r = json.load(fp)
    c = r['case']
    from vlib import runner
    res = runner.run_one('checks.c08', dict(
        cases=[(c['kernel'], c['dim'], c['h'], 1)], tier='quick'))
    print(json.dumps(res, indent=1)[:5000])
    return 1 if res.get('violations') else 0
