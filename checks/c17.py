"""C17 - spatial re-ordering is a pure permutation of whole particles.

Monitors: permutation check on the index list, uid-keyed row equality over
all (typed, strided) properties before/after, the alignment postcondition the
integrators rely on, and C01's brute-force neighbour oracle after the
following update.  Replayed under ASan."""
import json

import numpy as np

from vlib import common, harness, gen
from vlib.worker import mark, san_dirty, exit_tainted
from checks import c01

PROP = 'C17'
CLASSES = ['LinkedListNNPS', 'CellIndexingNNPS', 'ZOrderNNPS',
           'ExtendedZOrderNNPS', 'StratifiedSFCNNPS', 'OctreeNNPS',
           'CompressedOctreeNNPS']
REGULAR = ['uniform', 'clustered', 'lattice', 'lattice_faces', 'collinear',
           'axis_flat',
           'coplanar', 'sparse_corner', 'two_blobs']


def gen_case(seed, idx):
    rng = np.random.default_rng(common.case_seed(PROP, seed, idx))
    dim = int(rng.integers(1, 4))
    narr = int(rng.choice([1, 1, 2]))
    L = float(10 ** rng.uniform(-1, 1))
    off = rng.uniform(-1, 1, size=3) * L * float(rng.choice([0, 1, 100]))
    arrays = []
    for a in range(narr):
        n = int(rng.integers(2, 160))
        dist = str(rng.choice(REGULAR))
        pos = gen.positions(rng, dist, n, dim, L)
        # no exactly coincident particles (octrees: listed C01 finding)
        pos[:, :dim] += rng.uniform(-1e-6, 1e-6, size=(n, dim)) * L
        h0 = L / max(2.0, n ** (1.0 / dim)) * float(rng.uniform(0.6, 2.0))
        h = gen.smoothing(rng, str(rng.choice(gen.HMODES[:3])), pos, dim, h0)
        pos = pos + off[None, :]
        arrays.append(dict(name='a%d' % a, x=pos[:, 0], y=pos[:, 1],
                           z=pos[:, 2], h=h, dist=dist))
    tagged = bool(rng.random() < 0.5)
    return dict(idx=idx, dim=dim, tagged=tagged,
                repeats=int(rng.integers(1, 5)),
                radius_scale=float(rng.choice([2.0, 3.0])),
                seed2=int(rng.integers(1 << 60))), arrays


def make_pas(arrays, case):
    from pysph.base.utils import get_particle_array
    rng = np.random.default_rng(case['seed2'])
    pas = []
    uid0 = 0
    for a in arrays:
        n = len(a['x'])
        pa = get_particle_array(name=a['name'], x=a['x'].copy(),
                                y=a['y'].copy(), z=a['z'].copy(),
                                h=a['h'].copy())
        pa.add_property('uid', type='long', data=np.arange(uid0, uid0 + n))
        uid0 += n
        pa.add_property('s3', stride=3, data=rng.normal(size=3 * n))
        pa.add_property('i2', type='int', stride=2,
                        data=rng.integers(-99, 99, size=2 * n))
        pa.add_property('f1', type='float',
                        data=rng.integers(-50, 50, size=n) * 0.5)
        pa.add_property('u9', type='unsigned int', stride=9,
                        data=rng.integers(0, 99, size=9 * n))
        if case['tagged']:
            t = rng.choice([0, 0, 0, 1, 2], size=n).astype(np.int32)
            pa.tag[:] = t
            pa.align_particles()
        pas.append(pa)
    return pas


def rows(pa):
    n = pa.get_number_of_particles()
    cols = {p: pa.get(p, only_real_particles=False).reshape(
        n, pa.stride.get(p, 1)).copy() for p in pa.properties}
    uid = cols['uid'][:, 0]
    return {int(uid[i]): {p: cols[p][i].tobytes() for p in cols}
            for i in range(n)}, uid


def run_case(case, arrays, classes, mon, viol, skip=()):
    from cyarray.api import LongArray
    dim, rs = case['dim'], case['radius_scale']

    def bad(cls, kind, what):
        key = '%s:%s' % (c01.family(cls), kind)
        if cls in c01.ZFAM and len(arrays) > 1:
            key += ':multi-array'
        if sum(1 for v in viol if v['key'] == key) < 2:
            viol.append(dict(key=key, what='%s: %s' % (cls, what),
                             case=dict(idx=case['idx'], cls=cls)))
        mon['violating_observations'] = mon.get('violating_observations',
                                                0) + 1

    for cls in classes:
        if cls in c01.ZFAM and len(arrays) > 1:
            mon['skipped_zorder_multi_array'] = mon.get(
                'skipped_zorder_multi_array', 0) + 1
            continue      # listed C01 finding: tables corrupt with >1 array
        # every documented tuning of the algorithm in turn (levels, table
        # sizes, leaf sizes...), not just the default one
        ks = [kn_ for kn_ in c01.knob_choices(cls)
              if not (cls in c01.ZFAM and kn_.get('H', 1) > 1 and
                      not kn_.get('asymmetric'))]
        # (z-order stencils wider than one cell with symmetric variable-h
        # queries: listed C01 finding about the neighbour sets themselves)
        knobs = ks[(case['idx'] // 2) % len(ks)]
        if too_costly(cls, arrays, dim, knobs):
            continue
        if c01.condition(cls, c01.structure(
                [dict(x=a['x'], y=a['y'], z=a['z'], h=a['h'])
                 for a in arrays], dim), knobs) == 'point-cloud,small-h':
            mon['skipped_point_cloud_small_h'] = mon.get(
                'skipped_point_cloud_small_h', 0) + 1
            continue      # listed C01 finding: the constructor refuses / dies
        if '%d|%s' % (case['idx'], cls) in skip:
            mon['configs_skipped_after_report'] = mon.get(
                'configs_skipped_after_report', 0) + 1
            continue
        pas = make_pas(arrays, case)
        def stage(what):
            # breadcrumb for crash attribution: which call was under way
            mark(dict(id='%d|%s' % (case['idx'], cls), cls=cls,
                      idx=case['idx'], stage=what))
        stage('construct')
        try:
            nn = c01.construct(cls, dim, pas, rs, knobs, False, False)
        except Exception as e:
            bad(cls, 'constructor-raises', repr(e)[:200])
            continue
        mon['configs'] = mon.get('configs', 0) + 1
        mon['cfg_' + cls] = mon.get('cfg_' + cls, 0) + 1
        crng = np.random.default_rng(case['seed2'] + 17)
        # one scratch list for all queries of this configuration, as a
        # caller that re-orders often would keep (the call must reset it)
        scratch = LongArray()
        next_uid = [10 ** 6]
        for rep in range(case['repeats']):
            if rep and crng.random() < 0.6:
                # the particle count changes between the construction of the
                # neighbour search and the re-ordering (inlets, outlets,
                # load balancing): add copies of some particles nearby, or
                # remove some, then update
                for pa in pas:
                    nr = pa.num_real_particles
                    if nr == 0:
                        continue        # nothing but Remote / Ghost rows
                    if crng.random() < 0.6 or nr < 4:
                        kk = int(crng.integers(1, max(2, nr // 3) + 1))
                        idx = np.unique(crng.integers(0, nr, size=kk))
                        extra = pa.extract_particles(idx)
                        for c_ in 'xyz'[:dim]:
                            extra.get(c_)[:] += crng.uniform(
                                0.05, 0.3, size=len(idx)) * extra.get('h')
                        extra.get('uid')[:] = np.arange(
                            next_uid[0], next_uid[0] + len(idx))
                        next_uid[0] += len(idx)
                        pa.append_parray(extra)
                        mon['particles_added'] = mon.get(
                            'particles_added', 0) + len(idx)
                    else:
                        kk = int(crng.integers(1, nr // 2 + 1))
                        idx = np.unique(crng.integers(0, nr, size=kk))
                        pa.remove_particles(idx)
                        mon['particles_removed'] = mon.get(
                            'particles_removed', 0) + len(idx)
                stage('update')
                nn.update()
                mon['count_changes'] = mon.get('count_changes', 0) + 1
            before = [rows(pa) for pa in pas]
            nreal = [pa.num_real_particles for pa in pas]
            via_solver = bool((case['idx'] + rep) % 2)
            for k, pa in enumerate(pas):
                n = pa.get_number_of_particles()
                ind = scratch if case['idx'] % 2 else LongArray()
                stage('indices')
                nn.get_spatially_ordered_indices(k, ind)
                got = ind.get_npy_array().copy()
                mon['index_lists'] = mon.get('index_lists', 0) + 1
                if len(got) != n or not np.array_equal(np.sort(got),
                                                       np.arange(n)):
                    bad(cls, 'not-a-permutation', 'array %d (n=%d): %d '
                        'indices, %d distinct, min %s max %s' % (
                            k, n, len(got), len(set(got.tolist())),
                            got.min() if len(got) else None,
                            got.max() if len(got) else None))
                    break
                if not via_solver:
                    stage('reorder')
                    nn.spatially_order_particles(k)
            else:
                if via_solver:
                    # what a run with --reorder-freq does: the queries that
                    # follow (initial accelerations, integrators that start
                    # with update_nnps=False) get no further update
                    from pysph.solver.solver import Solver
                    sol = Solver.__new__(Solver)
                    sol.particles = pas
                    sol.nnps = nn
                    stage('reorder+update')
                    sol.reorder_particles()
                    mon['reorders_via_solver'] = mon.get(
                        'reorders_via_solver', 0) + 1
                else:
                    stage('update')
                    nn.update()
                stage('compare')
                for k, pa in enumerate(pas):
                    after, uid = rows(pa)
                    mon['arrays_compared'] = mon.get('arrays_compared', 0) + 1
                    if after != before[k][0]:
                        diff = [u for u in before[k][0]
                                if after.get(u) != before[k][0][u]][:5]
                        bad(cls, 'rows-changed', 'array %d: particles %s '
                            'differ after re-ordering (or uid multiset '
                            'changed: %d vs %d)' % (k, diff, len(after),
                                                    len(before[k][0])))
                    if not np.array_equal(uid, before[k][1]):
                        mon['really_permuted'] = mon.get(
                            'really_permuted', 0) + 1
                    tg = pa.get('tag', only_real_particles=False)
                    nr = pa.num_real_particles
                    if nr != nreal[k] or np.any(tg[:nr] != 0) or \
                            np.any(tg[nr:] == 0):
                        bad(cls, 'real-not-first', 'array %d: after '
                            're-ordering tags are %s... with '
                            'num_real_particles=%d' % (k, tg.tolist()[:24],
                                                       nr))
                # neighbours again exact
                stage('queries')
                snap = c01.snapshot(pas)
                orc = c01.Oracle(snap, rs)
                m2 = c01.Mon()
                m2.facts = c01.structure(snap, dim)
                nq = c01.check_queries(nn, pas, orc, cls, 'after reorder %d'
                                       % rep, False, m2, dict(idx=case['idx']),
                                       knobs)
                mon['queries'] = mon.get('queries', 0) + nq
                for v in m2.viol[:1]:
                    bad(cls, 'neighbours-' + v['key'].split(':')[1],
                        v['what'][:300])
                continue
            break
        if san_dirty():
            exit_tainted()


def too_costly(cls, arrays, dim, knobs=None):
    snap = [dict(h=a['h']) for a in arrays]
    return c01.too_costly(cls, knobs if knobs is not None else
                          c01.knob_choices(cls)[0], snap, dim)


def work(item):
    mon = {}
    viol = []
    distinct = []
    samples = []
    idxs = [item['replay_idx']] if 'replay_idx' in item else \
        range(item['lo'], item['hi'])
    for idx in idxs:
        case, arrays = gen_case(item['seed'], idx)
        run_case(case, arrays, item.get('classes', CLASSES), mon, viol,
                 skip=set(item.get('skip', ())))
        distinct.append('%d/%s' % (idx, '+'.join(item.get('classes', ['*']))))
        if idx % 50 == 0 and len(samples) < 2:
            samples.append(dict(case=case,
                                arrays=[(a['dist'], len(a['x']))
                                        for a in arrays]))
    return dict(evaluations=len(list(idxs)), distinct=distinct,
                violations=viol, counters=mon, samples=samples)


def run(tier):
    T = common.Timer()
    seed = common.seed()
    n = 120 if tier == 'quick' else 2400
    items = []
    for a, b in harness.chunks(n, 20 if tier == 'quick' else 60):
        for c in CLASSES:
            items.append(dict(seed=seed, lo=a, hi=b, classes=[c],
                              flavour='plain', worker_key=c, timeout=600))
    na = 30 if tier == 'quick' else 400
    for a, b in harness.chunks(na, 10 if tier == 'quick' else 40):
        for c in CLASSES:
            items.append(dict(seed=seed + 5, lo=a, hi=b, classes=[c],
                              flavour='asan', worker_key=c, timeout=900))
    items.sort(key=lambda it: (it['flavour'], it['classes'][0], it['lo']))
    m, crashes = harness.execute_resilient('checks.c17', items, timeout=900,
                                           max_rounds=45)
    v = common.Verdict(PROP)

    def san_key(rep, item):
        mk = item.get('mark') if isinstance(item, dict) else None
        cls = (mk or {}).get('cls') or (item.get('classes') or [None])[0]
        if 'stratified_sfc_nnps' in rep['key']:
            # the faulting frame names the class, whichever work item the
            # log file got attached to (sanitizer logs are per process id,
            # and ids are re-used within a long run)
            cls = c01.SSFC
        if cls == c01.SSFC and 'fill_array' in rep['key']:
            return 'stratified-sfc:fill_array-reads-before-buffer'
        if cls == c01.SSFC and any(f in rep['key'] for f in (
                '_neighbor_boxes', '_fill_nbr_boxes', 'find_nearest')):
            # building / querying the neighbour structure, not the
            # re-ordering: the listed neighbour-search finding
            return 'stratified-sfc:neighbours-unreliable'
        return None
    cov = harness.san_violations(m, v, classify=san_key)
    for c in crashes:
        mk = c['mark']
        if c['status'] == 'timeout':
            continue
        if mk['cls'] == c01.SSFC and mk.get('stage') in (
                'construct', 'update', 'queries'):
            # died while building / querying the neighbour structure (the
            # listed out-of-bounds reads of this class, fatal without the
            # sanitizer's red zones), not in the re-ordering
            v.violation('stratified-sfc:neighbours-unreliable',
                        '%s crashed in %s of case %s: %s' % (
                            mk['cls'], mk['stage'], mk['idx'],
                            c['detail'][-200:]),
                        dict(idx=mk['idx'], cls=mk['cls']))
            continue
        v.violation('%s:crash' % c01.family(mk['cls']),
                    '%s crashed while re-ordering case %s: %s' % (
                        mk['cls'], mk['idx'], c['detail'][-300:]),
                    dict(idx=mk['idx'], cls=mk['cls']))
    for c in CLASSES:
        if m.counters.get('cfg_' + c, 0) < 5:
            v.inconclusive_because('class %s exercised %d times' % (
                c, m.counters.get('cfg_' + c, 0)))
    if m.counters.get('really_permuted', 0) < 20:
        v.inconclusive_because('only %d re-orderings actually moved '
                               'particles' % m.counters.get(
                                   'really_permuted', 0))
    return harness.finish(
        PROP, tier, 'exploration', m, v, T,
        rule='case = 1-2 non-empty particle arrays without coincident points '
             '(8 distributions, 1-3 D, variable h, far offsets) carrying a '
             'uid plus double/int/float/unsigned properties with strides '
             '1,2,3,9 and, in half the cases, Remote/Ghost tags; for each of '
             'the 7 implementing classes: index list checked as permutation, '
             'spatially_order_particles + update, uid-keyed rows compared, '
             'alignment checked, all neighbour queries re-checked against '
             'brute force; repeated 1-4 times; distinct = (case, class)',
        assumptions=['z-order family only on single-array cases (C01 known '
                     'finding for several arrays)',
                     'no single-point clouds with h < 1e-3 for the cell-list '
                     'classes (C01 known finding: unit-size box padding)',
                     'inputs without exactly coincident particles (C01 known '
                     'finding for octrees)'],
        extra_cov=cov, min_evaluations=20, min_distinct=10)


def replay(path):
    with open(path) as fp:
        r = json.load(fp)
    c = r['case']
    from vlib import runner
    res = runner.run_one('checks.c17', dict(
        replay_idx=c['idx'], seed=common.seed(), classes=[c['cls']]))
    print(json.dumps(res, indent=1)[:5000])
    return 1 if res.get('violations') else 0
