"""C03 - groups run in the documented order, over the documented particles.

Two identical worlds are built from one seed: in world A the real compiled
evaluator runs a random tree of groups made of *recorder* equations, in world
B the reference interpreter (vlib/refeval.py, the documented semantics) runs
the same tree.  Recorder equations append a code to a per-particle log in
every hook, Python-level callables (condition / pre / post / py_initialize)
append to a global event log with a digest of all arrays.  Logs, events and
final arrays must be identical."""
import hashlib
import json
import linecache

import numpy as np

from vlib import common, harness, evalkit, refeval

PROP = 'C03'
LOG = 192

REC_SRC = '''
from pysph.sph.equation import Equation
from compyle.api import declare


class Rec{uid}(Equation):
    def __init__(self, dest, sources, eid=1, conv_k=1):
        self.eid = eid
        self.conv_k = conv_k
        self.nred = 0
        self.conv = -1.0
        super(Rec{uid}, self).__init__(dest, sources)
{methods}
'''

M_INIT = '''
    def initialize(self, d_idx, d_log, d_cnt, d_stamp, t):
        n = declare('int')
        n = d_cnt[d_idx]
        if n < {LOG}:
            d_log[{LOG}*d_idx + n] = self.eid*1000000 + 100000 + t
        d_cnt[d_idx] = n + 1
        d_stamp[d_idx] = d_stamp[d_idx] + 1
'''
M_IPAIR = '''
    def initialize_pair(self, d_idx, d_log, d_cnt, s_aid):
        n = declare('int')
        n = d_cnt[d_idx]
        if n < {LOG}:
            d_log[{LOG}*d_idx + n] = self.eid*1000000 + 200000 + s_aid[0]*1000
        d_cnt[d_idx] = n + 1
'''
M_LOOPALL = '''
    def loop_all(self, d_idx, d_log, d_cnt, s_aid, NBRS, N_NBRS):
        n, i = declare('int', 2)
        tot = 0.0
        for i in range(N_NBRS):
            tot = tot*0.5 + NBRS[i]
        n = d_cnt[d_idx]
        if n < {LOG}:
            d_log[{LOG}*d_idx + n] = self.eid*1000000 + 300000 + \\
                s_aid[0]*1000 + N_NBRS + 0.001*tot
        d_cnt[d_idx] = n + 1
'''
M_LOOP = '''
    def loop(self, d_idx, s_idx, d_log, d_cnt, s_aid, s_stamp, s_tag):
        n = declare('int')
        n = d_cnt[d_idx]
        if n < {LOG}:
            d_log[{LOG}*d_idx + n] = self.eid*1000000 + 400000 + \\
                s_aid[0]*1000 + s_idx + 0.01*s_stamp[s_idx] + 0.001*s_tag[s_idx]
        d_cnt[d_idx] = n + 1
'''
M_POST = '''
    def post_loop(self, d_idx, d_log, d_cnt):
        n = declare('int')
        n = d_cnt[d_idx]
        if n < {LOG}:
            d_log[{LOG}*d_idx + n] = self.eid*1000000 + 500000
        d_cnt[d_idx] = n + 1
'''
M_REDUCE = '''
    def reduce(self, dst, t, dt):
        self.nred += 1
        if self.nred >= self.conv_k:
            self.conv = 1.0
        else:
            self.conv = -1.0

    def converged(self):
        return self.conv
'''
M_PYINIT = '''
    def py_initialize(self, dst, t, dt):
        WORLD_EVENTS[self.world].append(('py_initialize', self.eid, dst.name,
                                         float(t), float(dt)))
'''
MOVER_SRC = '''
from pysph.sph.equation import Equation


class Mover(Equation):
    def __init__(self, dest, sources, shift=0.1):
        self.shift = shift
        super(Mover, self).__init__(dest, sources)

    def initialize(self, d_idx, d_x, d_h):
        d_x[d_idx] = d_x[d_idx] + self.shift*d_h[d_idx]
'''
WORLD_EVENTS = {}
_CLASSES = {}


def rec_class(mask, derived=False):
    """Recorder class defining the subset `mask` of the seven hooks; with
    `derived` a subclass of it that inherits every hook (converged() too)."""
    if (mask, derived) in _CLASSES:
        return _CLASSES[(mask, derived)]
    parts = [M_INIT, M_IPAIR, M_LOOPALL, M_LOOP, M_POST, M_REDUCE, M_PYINIT]
    meths = ''.join(p.replace('{LOG}', str(LOG))
                    for k, p in enumerate(parts) if mask & (1 << k))
    if not meths:
        meths = M_INIT.replace('{LOG}', str(LOG))
    uid = 'M%d' % mask
    text = REC_SRC.format(uid=uid, methods=meths)
    text += '\n\nclass Rec%sD(Rec%s):\n    pass\n' % (uid, uid)
    fname = '<c03-rec-%s>' % uid
    linecache.cache[fname] = (len(text), None, text.splitlines(True), fname)
    ns = {'__name__': 'c03_rec_%s' % uid, 'WORLD_EVENTS': WORLD_EVENTS}
    exec(compile(text, fname, 'exec'), ns)
    _CLASSES[(mask, False)] = ns['Rec' + uid]
    _CLASSES[(mask, True)] = ns['Rec' + uid + 'D']
    return _CLASSES[(mask, derived)]


def mover_class():
    if 'mover' not in _CLASSES:
        fname = '<c03-mover>'
        linecache.cache[fname] = (len(MOVER_SRC), None,
                                  MOVER_SRC.splitlines(True), fname)
        ns = {'__name__': 'c03_mover'}
        exec(compile(MOVER_SRC, fname, 'exec'), ns)
        _CLASSES['mover'] = ns['Mover']
    return _CLASSES['mover']


# ------------------------------------------------------------------ worlds
def make_world(seed, k, world):
    """Arrays + group tree for program k; identical for both worlds apart
    from the callables' bookkeeping."""
    from pysph.sph.equation import Group
    from pysph.base.nnps import DomainManager
    rng = np.random.default_rng(common.case_seed(PROP, seed, k))
    dim = int(rng.integers(1, 3))
    names = ['a', 'b'] if rng.random() < 0.75 else ['a', 'b', 'c']
    pas = []
    for ai, nm in enumerate(names):
        n = int(rng.integers(10, 22))
        pos = np.zeros((n, 3))
        pos[:, :dim] = rng.uniform(0, 1, size=(n, dim))
        h = np.full(n, 0.5 / max(2.0, n ** (1.0 / dim)) * rng.uniform(
            0.8, 1.3))
        pa = evalkit.make_array(nm, pos, h, dict(
            log=np.zeros(n * LOG), cnt=np.zeros(n), stamp=np.zeros(n)),
            strides=dict(log=LOG), types=dict(cnt='int'),
            constants=dict(aid=np.array([float(ai + 1)]),
                           nstart=np.array([2.0]),
                           nstop=np.array([float(n - 3)])))
        # hand-tagged Remote particles: sources, never destinations of a
        # real=True group
        tags = np.zeros(n, dtype=np.int32)
        tags[rng.random(n) < 0.15] = 1
        pa.tag[:] = tags
        pa.align_particles()
        pas.append(pa)
    domain = DomainManager(xmin=0.0, xmax=1.0, ymin=0.0, ymax=1.0,
                           periodic_in_x=True, periodic_in_y=(dim == 2),
                           n_layers=1.0)
    events = []
    WORLD_EVENTS[world] = events
    state = dict(pas=pas)

    def digest():
        hsh = hashlib.sha1()
        for pa in state['pas']:
            for p in sorted(pa.properties):
                hsh.update(pa.properties[p].get_npy_array().tobytes())
        return hsh.hexdigest()[:12]

    def cb(kind, gid):
        def f():
            events.append((kind, gid, digest()))
        return f

    def cond(gid, thr):
        def f(t, dt):
            r = bool(t < thr)
            events.append(('condition', gid, float(t), float(dt), r,
                           digest()))
            return r
        return f
    eid = [0]

    def rec_eq():
        eid[0] += 1
        mask = int(rng.integers(1, 128))
        if rng.random() < 0.5:
            mask |= 8           # most equations have a loop
        dest = str(rng.choice(names))
        nsrc = int(rng.integers(1, len(names) + 1))
        srcs = [str(s) for s in rng.choice(names, size=nsrc, replace=False)]
        needs_src = mask & (2 | 4 | 8)
        derived = bool(rng.random() < 0.3)
        e = rec_class(mask, derived)(
            dest=dest, sources=srcs if needs_src else None,
            eid=eid[0], conv_k=int(rng.integers(1, 6)))
        e.world = world
        return e

    gid = [0]

    def leaf(allow_update=True):
        gid[0] += 1
        g = gid[0]
        eqs = [rec_eq() for _ in range(int(rng.integers(1, 4)))]
        kw = {}
        if rng.random() < 0.5:
            kw['real'] = bool(rng.random() < 0.5)
        r = rng.random()
        if r < 0.2:
            kw['start_idx'] = 2
        elif r < 0.35:
            kw['start_idx'] = 'nstart'
        elif r < 0.4:
            kw['start_idx'] = 0
        r = rng.random()
        if r < 0.15:
            kw['stop_idx'] = 5
        elif r < 0.3:
            kw['stop_idx'] = 'nstop'
        elif r < 0.38:
            kw['stop_idx'] = 0          # given, and empty
        elif r < 0.43:
            kw['stop_idx'] = 1
        if rng.random() < 0.35:
            mn = int(rng.integers(0, 4))
            kw.update(iterate=True, min_iterations=mn,
                      max_iterations=int(rng.integers(max(1, mn), 6)))
        if rng.random() < 0.3:
            kw['condition'] = cond(g, float(rng.choice([0.1, 0.5])))
        if rng.random() < 0.4:
            kw['pre'] = cb('pre', g)
        if rng.random() < 0.4:
            kw['post'] = cb('post', g)
        if rng.random() < 0.3:
            # a profiling label; nothing says labels have to differ
            kw['name'] = str(rng.choice(['density', 'forces']))
        if allow_update and rng.random() < 0.25:
            kw['update_nnps'] = True
            eqs.append(mover_class()(dest=str(rng.choice(names)),
                                     sources=None,
                                     shift=float(rng.uniform(0.5, 3.0))))
        return Group(equations=eqs, **kw), dict(gid=g, kw={
            k_: (v if isinstance(v, (int, float, str, bool)) else 'callable')
            for k_, v in kw.items()}, eqs=[
                (e.__class__.__name__, e.dest, e.sources) for e in eqs])

    groups = []
    desc = []
    for _ in range(int(rng.integers(3, 7))):
        if rng.random() < 0.25:
            subs = [leaf(allow_update=False) for _ in range(
                int(rng.integers(1, 4)))]
            gid[0] += 1
            kw = {}
            if rng.random() < 0.4:
                mn = int(rng.integers(0, 3))
                kw.update(iterate=True, min_iterations=mn,
                          max_iterations=int(rng.integers(max(1, mn), 4)))
            if rng.random() < 0.3:
                kw['pre'] = cb('pre', gid[0])
            if rng.random() < 0.3:
                kw['post'] = cb('post', gid[0])
            if rng.random() < 0.3:
                kw['condition'] = cond(gid[0], 0.5)
            if rng.random() < 0.3:
                kw['name'] = str(rng.choice(['density', 'forces']))
            groups.append(Group(equations=[s[0] for s in subs], **kw))
            desc.append(dict(gid=gid[0], kw={k_: (
                v if isinstance(v, (int, float, str, bool)) else 'callable')
                for k_, v in kw.items()}, sub=[s[1] for s in subs]))
        else:
            g, d = leaf()
            groups.append(g)
            desc.append(d)
    return dict(dim=dim, names=names, pas=pas, domain=domain, groups=groups,
                events=events, desc=desc, state=state)


def table(pas):
    out = {}
    for pa in pas:
        n = pa.get_number_of_particles()
        out[pa.name] = dict(n=n, nreal=pa.num_real_particles, props={
            p: a.get_npy_array().copy() for p, a in pa.properties.items()})
    return out


def run_program(seed, k, mon):
    from pysph.base.kernels import CubicSpline
    from pysph.base.nnps import LinkedListNNPS
    from cyarray.api import UIntArray
    A = make_world(seed, k, 'A')
    B = make_world(seed, k, 'B')
    kernel = CubicSpline(dim=A['dim'])
    try:
        ev = evalkit.Evaluator(A['pas'], A['groups'], kernel, A['dim'],
                               domain=A['domain'])
    except BaseException as e:
        return A, ('build', '%s: %r %s' % (type(e).__name__, e,
                                           getattr(e, 'log', '')[-1500:]))
    nnB = LinkedListNNPS(dim=B['dim'], particles=B['pas'],
                         radius_scale=kernel.radius_scale, domain=B['domain'])
    nb = UIntArray()

    def neighbours(si, di, i):
        nnB.get_nearest_particles(si, di, i, nb)
        return nb.get_npy_array().copy()

    def upd():
        nnB.update_domain()
        nnB.update()
    ref = refeval.RefEval(B['pas'], B['groups'], kernel, neighbours,
                          live=True)
    ref.update_nnps = upd
    for step, (t, dt) in enumerate([(0.0, 0.1), (0.3, 0.1), (0.7, 0.05)]):
        ev.nnps.update_domain()
        ev.nnps.update()
        try:
            ev.ae.compute(t, dt)
        except Exception as e:
            # a program inside the documented subset: the compiled evaluator
            # has no business raising where the documented semantics run
            return A, ('compute-raises', 'compute %d (t=%g) raised %s: %s '
                       'after events %s' % (step, t, type(e).__name__,
                                            str(e)[:200], A['events'][-3:]))
        upd()
        for a in ref.arrays:
            a.rebind()
        ref.compute(t, dt)
        mon['computes'] = mon.get('computes', 0) + 1
        if len(A['events']) != len(B['events']) or any(
                x != y for x, y in zip(A['events'], B['events'])):
            j = next((i for i, (x, y) in enumerate(zip(
                A['events'], B['events'])) if x != y),
                min(len(A['events']), len(B['events'])))
            return A, ('events', 'compute %d (t=%g): event %d differs: '
                       'compiled %r, documented %r (%d vs %d events)' % (
                           step, t, j, A['events'][j:j + 1],
                           B['events'][j:j + 1], len(A['events']),
                           len(B['events'])))
        ta, tb = table(A['pas']), table(B['pas'])
        for nm in A['names']:
            if ta[nm]['n'] != tb[nm]['n'] or ta[nm]['nreal'] != \
                    tb[nm]['nreal']:
                return A, ('particle-count', 'compute %d: array %s has '
                           '%d/%d particles, documented %d/%d' % (
                               step, nm, ta[nm]['n'], ta[nm]['nreal'],
                               tb[nm]['n'], tb[nm]['nreal']))
            for p in ('cnt', 'log', 'stamp', 'x', 'tag'):
                a_, b_ = ta[nm]['props'][p], tb[nm]['props'][p]
                if not np.array_equal(a_, b_):
                    i = int(np.nonzero(a_ != b_)[0][0])
                    st = LOG if p == 'log' else 1
                    pi = i // st
                    la = ta[nm]['props']['log'][pi * LOG:(pi + 1) * LOG]
                    lb = tb[nm]['props']['log'][pi * LOG:(pi + 1) * LOG]
                    na = int(ta[nm]['props']['cnt'][pi])
                    nb_ = int(tb[nm]['props']['cnt'][pi])
                    return A, ('particle-log', 'compute %d: %s.%s of '
                               'particle %d differs; compiled log (%d '
                               'entries) %s..., documented (%d entries) '
                               '%s...' % (step, nm, p, pi, na,
                                          la[:min(na, 14)].tolist(), nb_,
                                          lb[:min(nb_, 14)].tolist()))
        mon['log_entries'] = mon.get('log_entries', 0) + int(sum(
            t_['props']['cnt'].sum() for t_ in ta.values()))
        mon['events'] = len(A['events']) + mon.get('events_prev', 0)
    mon['events_prev'] = mon.get('events', 0)
    mon['events_total'] = mon.get('events_total', 0) + len(A['events'])
    return A, None


def features(desc):
    f = set()
    for d in desc:
        for k_ in d['kw']:
            f.add(k_)
        if 'sub' in d:
            f.add('subgroups')
            for s in d['sub']:
                for k_ in s['kw']:
                    f.add('sub.' + k_)
    return f


def work(item):
    mon = {}
    viol = []
    distinct = []
    samples = []
    feats = set()
    for k in range(item['lo'], item['hi']):
        A, bad = run_program(item['seed'], k, mon)
        mon['programs'] = mon.get('programs', 0) + 1
        mon['groups'] = mon.get('groups', 0) + len(A['desc'])
        feats |= features(A['desc'])
        distinct.append('%d' % k)
        if bad:
            key = bad[0]
            if sum(1 for v in viol if v['key'] == key) < 2:
                viol.append(dict(key=key, what=bad[1][:1800],
                                 case=dict(k=k, tree=A['desc'])))
            mon['violating_programs'] = mon.get('violating_programs', 0) + 1
        if k % 8 == 0 and len(samples) < 1:
            samples.append(dict(k=k, tree=A['desc'],
                                first_events=[list(map(str, e))
                                              for e in A['events'][:6]]))
    mon.pop('events_prev', None)
    mon.pop('events', None)
    return dict(evaluations=mon.get('computes', 0), distinct=distinct,
                violations=viol, counters=mon, samples=samples,
                sets=dict(group_features=sorted(feats)))


def run(tier):
    T = common.Timer()
    n = 16 if tier == 'quick' else 128
    per = 3 if tier == 'quick' else 5
    items = [dict(seed=common.seed(), lo=per*k, hi=per*k + per,
                  flavour='plain', timeout=420) for k in range(n)]
    # (a group that never stops iterating shows as a watchdog timeout)
    m = harness.execute('checks.c03', items, timeout=420)
    v = common.Verdict(PROP)
    need = {'real', 'start_idx', 'stop_idx', 'iterate', 'condition', 'pre',
            'post', 'update_nnps', 'subgroups'}
    got = set(m.sets.get('group_features', ()))
    if not need <= got:
        v.inconclusive_because('group features never generated: %s' % sorted(
            need - got))
    if m.counters.get('log_entries', 0) < 1000:
        v.inconclusive_because('only %d per-particle log entries' %
                               m.counters.get('log_entries', 0))
    return harness.finish(
        PROP, tier, 'exploration', m, v, T,
        rule='program = random sequence of 3-6 groups (a quarter with one '
             'level of sub-groups) over 2-3 arrays with Remote-tagged and '
             'periodic Ghost particles; groups vary real, start_idx / '
             'stop_idx (numbers and names of constants), iterate with min / '
             'max and converged() turning true after k reductions, condition, '
             'pre, post, update_nnps (with an equation that moves particles); '
             'recorder equations define any subset of the seven hooks and '
             'log (equation, hook, source array, source index, source stamp, '
             'source tag, neighbour count) per destination particle; three '
             'computes per program at different t; compiled world vs '
             'documented-semantics interpreter: event sequences with array '
             'digests, per-particle logs, positions and tags must be equal',
        assumptions=['single OpenMP thread (the recorder reads what other '
                     'particles wrote)',
                     'min_iterations <= max_iterations',
                     'the interpreter takes its neighbours from its own '
                     'LinkedListNNPS on its own copy of the arrays (C01)'],
        min_evaluations=30, min_distinct=10)


def replay(path):
    with open(path) as fp:
        r = json.load(fp)
    print(json.dumps(r, indent=1)[:4000])
    return 1
