"""C02 - compiled equations compute what the Python equation source says.

Translation validation by differential execution: programs (groups of
equation instances + kernel + arrays) are compiled by the real generator and
run; a reference interpreter (vlib/refeval.py) executes the same user-written
Python methods with pair symbols from their documented formulas and the
Python kernel class, over the same neighbours in the same order.  Every
property and constant is compared after every group (bit-exact for
arithmetic-only programs, ulp-bounded otherwise).  Replayed under ASan with
the generated module itself instrumented."""
import copy
import inspect
import json

import numpy as np

from vlib import common, harness, evalkit, eqgen, refeval, eqcatalog as ec

PROP = 'C02'
INT_NAMES = {'tag': 'int', 'pid': 'int', 'gid': 'unsigned int',
             'orig_idx': 'int', 'row_idx': 'int', 'parent_idx': 'int',
             'neartag': 'int', 'interior': 'int', 'filter': 'int',
             'ctr': 'int', 'col_idx': 'int', 'closest_idx': 'int',
             'body_id': 'int', 'ioid': 'int'}
POSITIVE = ('rho', 'm', 'cs', 'V', 'h', 'omega', 'alpha1', 'alpha2', 'e', 'n',
            'alpha', 'wdeltap', 'rho0', 'h0', 'm0', 'wij', 'arho', 'vol',
            'p', 'V0', 'rhop', 'wf', 'dw_gamma')


# ===================================================================== arrays
def cloud(rng, n, dim):
    pos = np.zeros((n, 3))
    pos[:, :dim] = rng.uniform(0, 1, size=(n, dim))
    spacing = 1.0 / max(2.0, n ** (1.0 / dim))
    h = spacing * rng.uniform(0.9, 1.6, size=n)
    return pos, h


def gen_arrays(rng, names, dim, nmax):
    pas = []
    for nm in names:
        n = int(rng.integers(8, nmax))
        pos, h = cloud(rng, n, dim)
        props = dict(u=rng.normal(size=n), v=rng.normal(size=n),
                     w=rng.normal(size=n), rho=rng.uniform(0.5, 2, size=n),
                     m=rng.uniform(0.5, 2, size=n) / n,
                     p=rng.normal(size=n))
        strides, types = {}, {}
        for p, (tp, st) in eqgen.PROPS.items():
            types[p] = tp
            strides[p] = st
            if tp == 'double':
                props[p] = rng.normal(size=n * st)
            elif tp == 'float':
                props[p] = (rng.integers(-40, 40, size=n * st) * 0.125)
            elif tp == 'unsigned int':
                props[p] = rng.integers(0, 1000, size=n * st)
            else:
                props[p] = rng.integers(0, 50, size=n * st)
        consts = dict(cst=rng.normal(size=3), total=np.zeros(1))
        pas.append(evalkit.make_array(nm, pos, h, props, strides, types,
                                      consts))
    return pas


# ============================================================ comparison
def snapshot(pas):
    out = {}
    for pa in pas:
        d = {p: a.get_npy_array().copy() for p, a in pa.properties.items()}
        for c, a in pa.constants.items():
            d['const:' + c] = a.get_npy_array().copy()
        out[pa.name] = d
    return out


def load_into(ref, snap):
    for a in ref.arrays:
        for p in a.props:
            a.props[p][:] = snap[a.name][p]
        for c in a.consts:
            a.consts[c][:] = snap[a.name]['const:' + c]


def ulp_diff(a, b):
    a = np.asarray(a, dtype=np.float64)
    b = np.asarray(b, dtype=np.float64)
    with np.errstate(all='ignore'):
        sp = np.spacing(np.maximum(np.abs(a), np.abs(b)))
        d = np.abs(a - b) / sp
    d[(a == b) | (np.isnan(a) & np.isnan(b))] = 0.0
    d[np.isnan(d)] = np.inf
    return d


def compare(ref, snap, exact, ulp_budget):
    """-> None or (array, prop, index, ref value, compiled value, ulps)"""
    for a in ref.arrays:
        for p, rv in list(a.props.items()) + [('const:' + c, v) for c, v
                                              in a.consts.items()]:
            cv = snap[a.name][p]
            if rv.dtype.kind in 'iu':
                if not np.array_equal(rv, cv):
                    i = int(np.nonzero(rv != cv)[0][0])
                    return (a.name, p, i, int(rv[i]), int(cv[i]), 'int')
                continue
            if np.array_equal(rv, cv, equal_nan=True):
                continue
            d = ulp_diff(rv, cv)
            if rv.dtype == np.float32:
                d = d * 2.0 ** -29
            lim = 0 if exact else ulp_budget
            if d.max() > lim:
                i = int(np.argmax(d))
                return (a.name, p, i, float(rv[i]), float(cv[i]),
                        float(d.max()))
    return None


# ============================================================= programs
def gen_program(seed, k, tier):
    """Random program of generated equations."""
    from pysph.sph.equation import Group
    rng = np.random.default_rng(common.case_seed(PROP, 'gen', seed, k))
    dim = int(rng.integers(1, 4))
    # every (kernel, dimension) pair that exists is met once per 21 programs
    pairs = [(d_, n_) for d_ in (1, 2, 3) for n_ in evalkit.kernels()
             if evalkit.kernel_for(n_, d_) is not None]
    dim, forced_kernel = pairs[(k + seed) % len(pairs)]
    transcendental = bool(k % 3 == 2)
    names = ['a', 'b'] if rng.random() < 0.7 else ['a', 'b', 'c']
    ngroups = int(rng.integers(3, 7))
    groups = []
    texts = []
    made = []
    for gi in range(ngroups):
        eqs = []
        for ei in range(int(rng.integers(1, 3))):
            if made and rng.random() < 0.3:
                # the same equation class once more, with its own attribute
                # values (an int here, a float there, as users write them)
                cls, text, tr = made[int(rng.integers(len(made)))]
                reused = True
            else:
                cls, text, tr = eqgen.make_class(rng, '%d_%d_%d_%d' % (
                    seed, k, gi, ei), transcendental)
                made.append((cls, text, tr))
                reused = False
            dest = str(rng.choice(names))
            nsrc = int(rng.integers(1, len(names) + 1))
            srcs = [str(s) for s in rng.choice(names, size=nsrc,
                                               replace=False)]
            needs_src = any(hasattr(cls, h) for h in ('loop', 'loop_all',
                                                      'initialize_pair'))
            fa = [0.5, -0.25, 1.5, 2, 1][int(rng.integers(5))]
            # (fb is re-assigned a float by some reduce(): always a float)
            fb = [1.25, 0.75][int(rng.integers(2))]
            eqs.append(cls(dest=dest, sources=srcs if needs_src else None,
                           fa=fa, fb=fb))
            if not reused:
                texts.append(text)
        kw = {}
        if rng.random() < 0.25:
            # swept a documented number of times (the default converged()
            # says yes, so the minimum decides; or the maximum, when equal)
            mn = int(rng.integers(1, 3))
            kw = dict(iterate=True, min_iterations=mn,
                      max_iterations=mn + int(rng.integers(0, 2)))
        if rng.random() < 0.2:
            # only some of the destination particles (an empty range too)
            kw['stop_idx'] = int(rng.choice([0, 3, 7]))
            if rng.random() < 0.5:
                kw['start_idx'] = int(rng.choice([0, 2]))
        groups.append(Group(equations=eqs, **kw))
    kn = [n for n in evalkit.kernels() if ('1D' in n) == (dim == 1) or
          n in ('CubicSpline', 'Gaussian', 'QuinticSpline', 'SuperGaussian')]
    kname = forced_kernel
    return dict(k=k, dim=dim, names=names, kernel=kname,
                exact=not transcendental, kind='generated'), groups, texts


def run_program(meta, groups, pas, mon, viol, flavour_note='', pas2=None):
    """Compile + run the program, then validate group by group."""
    from pysph.base import kernels as K
    from cyarray.api import UIntArray
    kernel = getattr(K, meta['kernel'])(dim=meta['dim'])
    snaps = []

    cur = {'pas': pas}

    def mk_post(i):
        def post():
            # once per sweep of an iterated group
            snaps.append((i, snapshot(cur['pas'])))
        return post
    ref_sweeps = {}

    def mk_count(i):
        def post():
            ref_sweeps[i] = ref_sweeps.get(i, 0) + 1
        return post
    ref_groups = []
    originals = {}
    for i, g in enumerate(groups):
        rg = copy.copy(g)
        rg.equations = [copy.deepcopy(e) for e in g.equations]
        rg.post = mk_count(i)
        ref_groups.append(rg)
        originals[id(rg)] = [copy.deepcopy(e.__dict__) for e in rg.equations]
        g.post = mk_post(i)
    try:
        ev = evalkit.Evaluator(pas, groups, kernel, meta['dim'])
    except BaseException as e:
        mon['programs_not_built'] = mon.get('programs_not_built', 0) + 1
        return ('build', '%s: %r %s' % (type(e).__name__, e,
                                        getattr(e, 'log', '')))
    def validate(pas, phase):
        del snaps[:]
        s0 = snapshot(pas)
        ev.compute(0.3, 0.01)
        mon['programs'] = mon.get('programs', 0) + 1
        per = {}
        for i_, sn_ in snaps:
            per.setdefault(i_, []).append(sn_)
        if sorted(per) != list(range(len(groups))) or \
                [i_ for i_, _ in snaps] != sorted(i_ for i_, _ in snaps):
            return ('post-callbacks', 'post calls of groups %s for %d groups'
                    % ([i_ for i_, _ in snaps], len(groups)))
        ref_sweeps.clear()
        # neighbours in the order the real NNPS returns them (positions never
        # change inside a program: the generated equations do not write x,y,z,h)
        nb = UIntArray()
        cache = {}
        final = snapshot(pas)

        state = {}

        def neighbours(si, di, i):
            # the compiled loop asks the (un-updated) neighbour search for the
            # neighbours of d_idx at the moment it gets there, with whatever x
            # and h the arrays hold by then (some shipped equations scale h or
            # move x inside their loop): give the real arrays the reference
            # state's coordinates and h before every query
            ref = state['ref']
            for pa, ra in zip(pas, ref.arrays):
                for c in ('x', 'y', 'z', 'h'):
                    pa.get(c, only_real_particles=False)[:] = ra.props[c]
            ev.nnps.get_nearest_particles(si, di, i, nb)
            return nb.get_npy_array().copy()

        def before_loop(ref):
            state['ref'] = ref
        prev = s0
        for gi, rg in enumerate(ref_groups):
            ref = refeval.RefEval(pas, [rg], kernel, neighbours)
            ref.before_loop = before_loop
            load_into(ref, prev)
            prev = per[gi][-1]
            try:
                ref.compute(0.3, 0.01)
            except refeval.PyUndefined as e:
                mon['groups_python_undefined'] = mon.get(
                    'groups_python_undefined', 0) + 1
                mon.setdefault('_undef', set()).add(str(e)[:100])
                continue
            except (NameError, TypeError, AttributeError, IndexError,
                    KeyError) as e:
                mon['groups_python_not_executable'] = mon.get(
                    'groups_python_not_executable', 0) + 1
                mon.setdefault('_notexec', set()).add('%s: %s' % (
                    '+'.join(e_.__class__.__name__ for e_ in rg.equations),
                    repr(e)[:120]))
                continue
            mon['groups_compared'] = mon.get('groups_compared', 0) + 1
            if rg.iterate:
                mon['iterated_groups_compared'] = mon.get(
                    'iterated_groups_compared', 0) + 1
            if ref_sweeps.get(gi, 0) != len(per[gi]):
                key = 'sweeps:%s' % ('generated-equation' if meta['kind'] ==
                                     'generated' else 'shipped')
                if sum(1 for v in viol if v['key'] == key) < 2:
                    viol.append(dict(
                        key=key, what='[%s] group %d (iterate=%s, min %s, max '
                        '%s) swept %d times by the compiled evaluator, %d '
                        'times by the documented rule' % (
                            phase, gi, rg.iterate, rg.min_iterations,
                            rg.max_iterations, len(per[gi]),
                            ref_sweeps.get(gi, 0)),
                        case=dict(meta=meta, group=gi)))
                mon['violating_groups'] = mon.get('violating_groups', 0) + 1
            mon['equations_compared'] = mon.get('equations_compared', 0) + len(
                rg.equations)
            bad = compare(ref, per[gi][-1], meta['exact'],
                          meta.get('ulps', 64))
            if bad and meta['kind'] == 'shipped' and bad[5] != 'int' and not (
                    np.isfinite(bad[3]) and np.isfinite(bad[4])):
                # random admissible-looking data drove a shipped formula outside
                # its domain (pow of a negative number, ...): Python and C define
                # different non-finite results there
                mon['groups_nonfinite_discarded'] = mon.get(
                    'groups_nonfinite_discarded', 0) + 1
                bad = None
            if bad:
                names = '+'.join(e.__class__.__name__ for e in rg.equations)
                key = 'mismatch:%s' % (names if meta['kind'] == 'shipped'
                                       else 'generated-equation')
                if sum(1 for v in viol if v['key'] == key) < 2:
                    viol.append(dict(
                        key=key, what='[%s] group %d (%s, %s %dD%s): %s.%s[%d] '
                        'python %r compiled %r (%s ulp)' % (
                            phase, gi, names, meta['kernel'], meta['dim'],
                            flavour_note, bad[0], bad[1], bad[2], bad[3],
                            bad[4], bad[5]),
                        case=dict(meta=meta, group=gi)))
                mon['violating_groups'] = mon.get('violating_groups', 0) + 1
        for pa in pas:
            for c in ('x', 'y', 'z', 'h'):
                pa.get(c, only_real_particles=False)[:] = final[pa.name][c]
        return None
    r = validate(pas, 'first arrays')
    if r or pas2 is None:
        return r
    # second life: the same compiled evaluator on replacement arrays (new
    # objects, other sizes, other property and constant values), as when a
    # post-processing tool loads the next output file
    cur['pas'] = pas2
    ev.arrays = pas2
    ev.ae.update_particle_arrays(pas2)
    ev.set_nnps(type(ev.nnps))
    # (attributes an equation changed in its reduce() carry over, in the
    # compiled objects as in the reference's copies)
    mon['second_life_programs'] = mon.get('second_life_programs', 0) + 1
    return validate(pas2, 'after update_particle_arrays')


# ====================================================== shipped equations
class Probe(list):
    """Recording array used to find out how a method indexes its arguments."""

    def __init__(self, name, log):
        self.name, self.log = name, log

    def __getitem__(self, i):
        self.log.setdefault(self.name, []).append(int(i))
        return 0.37

    def __setitem__(self, i, v):
        self.log.setdefault(self.name, []).append(int(i))


def probe_equation(eq):
    """Run every hook once with recording arrays; returns (strides, error)."""
    P, Q = 17, 19
    log = {}
    strides = {}
    for h in ec.HOOKS:
        m = getattr(eq, h, None)
        if m is None:
            continue
        f = refeval.rebind(m)
        args = inspect.getfullargspec(f).args[1:]
        vals = []
        for a in args:
            if a == 'd_idx':
                vals.append(P)
            elif a == 's_idx':
                vals.append(Q)
            elif a.startswith(('d_', 's_')):
                vals.append(Probe(a, log))
            elif a in ('t', 'dt'):
                vals.append(0.1)
            elif a in ('XIJ', 'DWIJ', 'DWI', 'DWJ', 'VIJ'):
                vals.append([0.3, -0.2, 0.1])
            elif a == 'NBRS':
                vals.append([Q, Q, Q])
            elif a == 'N_NBRS':
                vals.append(3)
            elif a == 'SPH_KERNEL':
                from pysph.base.kernels import CubicSpline
                vals.append(CubicSpline(dim=2))
            else:
                vals.append(0.41)
        try:
            f(eq, *vals)
        except (ZeroDivisionError, ValueError, OverflowError):
            pass
        except Exception as e:
            return None, '%s.%s: %s' % (eq.__class__.__name__, h,
                                        repr(e)[:100])
    # indexing hidden in branches the probe did not take: read the source
    import re
    for h in ec.HOOKS:
        m = getattr(eq, h, None)
        if m is None:
            continue
        try:
            src = inspect.getsource(m)
        except (OSError, TypeError):
            continue
        for mm in re.finditer(r'\b([ds]_\w+)\[([^\]]*)\]', src):
            arr, idx = mm.group(1), mm.group(2)
            for k in re.findall(r'(?:[ds]_idx\s*\*\s*(\d+))|(?:(\d+)\s*\*'
                                r'\s*[ds]_idx)', idx):
                st = int(k[0] or k[1])
                strides[arr[2:]] = max(strides.get(arr[2:], 1), st)
    for name, idxs in log.items():
        base = P if name.startswith('d_') else Q
        if min(idxs) < base:
            # indexed by something other than stride*idx + k (a value read
            # from another array, a neighbour index, ...): random data would
            # send the compiled code anywhere
            return None, '%s: indirect indexing of %s' % (
                eq.__class__.__name__, name)
        mx = max(idxs)
        st = max(1, mx // base) if mx >= base else 1
        strides[name[2:]] = max(strides.get(name[2:], 1), st)
    return strides, None


def shipped_batches(seed, tier):
    """-> list of lists of class names; quick: a rotating sixth."""
    names = sorted(ec.equation_classes())
    per = 6
    batches = [names[i:i + per] for i in range(0, len(names), per)]
    if tier == 'quick':
        batches = [b for i, b in enumerate(batches) if i % 6 == seed % 6]
    return batches


def build_shipped(batch, k, seed):
    from pysph.sph.equation import Group
    rng = np.random.default_rng(common.case_seed(PROP, 'ship', seed, k))
    dim = int(rng.integers(1, 4))
    classes = ec.equation_classes()
    insts = []
    skipped = []
    need = {'dest': {}, 'src': {}}
    for name in batch:
        cls = classes[name]
        try:
            eq = ec.instantiate(cls, dict(dim=dim), dest='dest',
                                sources=('dest', 'src'))
        except Exception as e:
            skipped.append('%s: not instantiable: %r' % (name, e))
            continue
        strides, err = probe_equation(eq)
        if err:
            skipped.append('%s: python method not executable: %s' % (name,
                                                                      err))
            continue
        from pysph.sph.equation import Equation as _Eq
        if hasattr(eq, '_cython_code_') or hasattr(eq, 'py_initialize') or \
                hasattr(eq, 'reduce') or \
                type(eq).converged is not _Eq.converged:
            # needs C helpers / whole-array Python hooks: not comparable by
            # this interpreter
            skipped.append('%s: uses _cython_code_/py_initialize/reduce/'
                           'converged' % name)
            continue
        d, s, imp = ec.needed_names(eq)
        for p in d | imp:
            need['dest'][p] = max(need['dest'].get(p, 1), strides.get(p, 1))
            need['src'][p] = max(need['src'].get(p, 1), strides.get(p, 1))
        for p in s | imp:
            need['src'][p] = max(need['src'].get(p, 1), strides.get(p, 1))
            need['dest'][p] = max(need['dest'].get(p, 1), strides.get(p, 1))
        insts.append((name, eq))
    pas = []
    for nm in ('dest', 'src'):
        n = int(rng.integers(12, 40))
        pos, h = cloud(rng, n, dim)
        props, strides, types = {}, {}, {}
        for p, st in need[nm].items():
            if p in ('x', 'y', 'z', 'h'):
                continue
            strides[p] = st
            tp = INT_NAMES.get(p, 'double')
            types[p] = tp
            if tp != 'double':
                props[p] = rng.integers(0, 3, size=n * st)
            elif p in POSITIVE:
                props[p] = rng.uniform(0.5, 2.0, size=n * st)
            else:
                props[p] = rng.normal(size=n * st)
        pas.append(evalkit.make_array(nm, pos, h, props, strides, types))
    groups = [Group(equations=[eq]) for _, eq in insts]
    kn = [n for n in evalkit.kernels() if ('1D' in n) == (dim == 1) or
          n in ('CubicSpline', 'Gaussian', 'QuinticSpline')]
    meta = dict(k=k, dim=dim, kernel=kn[k % len(kn)], exact=False, ulps=512,
                kind='shipped', classes=[n for n, _ in insts])
    return meta, groups, pas, skipped


def work(item):
    mon = {}
    viol = []
    distinct = []
    samples = []
    note = '' if item.get('flavour', 'plain') == 'plain' else \
        ', ' + item['flavour']
    sets = dict(not_compared=set(), compared_classes=set())
    if item['kind'] == 'generated':
        meta, groups, texts = gen_program(item['seed'], item['k'],
                                          item['tier'])
        rng = np.random.default_rng(common.case_seed(PROP, 'arr',
                                                     item['seed'], item['k']))
        pas = gen_arrays(rng, meta['names'], meta['dim'],
                         40 if item['tier'] == 'quick' else 90)
        pas2 = gen_arrays(rng, meta['names'], meta['dim'],
                          40 if item['tier'] == 'quick' else 90)
        r = run_program(meta, groups, pas, mon, viol, note, pas2=pas2)
        if r:
            viol.append(dict(key='generated-program-%s' % r[0],
                             what='%s\n%s' % (r[1][:1500], texts[0][:600]),
                             case=dict(meta=meta)))
        distinct.append('gen/%d' % item['k'])
        if item['k'] % 8 == 0:
            samples.append(dict(meta=meta, first_class_source=texts[0][
                texts[0].index('class VGen'):][:900]))
    else:
        meta, groups, pas, skipped = build_shipped(item['batch'], item['k'],
                                                   item['seed'])
        for s in skipped:
            sets['not_compared'].add(s)
        if groups:
            r = run_program(meta, groups, pas, mon, viol, note)
            if r:
                # find which class breaks the build: not a mismatch, the
                # batch is simply not comparable here
                mon['shipped_batches_not_built'] = mon.get(
                    'shipped_batches_not_built', 0) + 1
                sets['not_compared'].add('batch %s: %s' % (
                    meta['classes'], r[1][:200]))
            else:
                for c in meta['classes']:
                    sets['compared_classes'].add(c)
                distinct.append('ship/%d' % item['k'])
        if item['k'] % 10 == 0:
            samples.append(dict(meta=meta))
    for s in mon.pop('_notexec', set()):
        sets['not_compared'].add(s)
    sets['python_undefined_reasons'] = mon.pop('_undef', set())
    return dict(evaluations=mon.get('groups_compared', 0), distinct=distinct,
                violations=viol, counters=mon, samples=samples,
                sets={k: sorted(v) for k, v in sets.items()})


def run(tier):
    T = common.Timer()
    seed = common.seed()
    ngen = 24 if tier == 'quick' else 240
    items = [dict(kind='generated', seed=seed, k=k, tier=tier,
                  flavour='plain', timeout=1800) for k in range(ngen)]
    # shipped batches are enumerated in a worker-independent way: by index
    nb = 48                      # 288 classes / 6 per batch
    ks = [k for k in range(nb) if tier != 'quick' or k % 6 == seed % 6]
    items += [dict(kind='shipped', seed=seed, k=k, batch=None, tier=tier,
                   flavour='plain', timeout=1800) for k in ks]
    nasan = 4 if tier == 'quick' else 40
    items += [dict(kind='generated', seed=seed + 101, k=k, tier=tier,
                   flavour='asan', timeout=3000) for k in range(nasan)]
    m = harness.execute('checks.c02', items, timeout=3000)
    v = common.Verdict(PROP)
    cov = harness.san_violations(m, v)
    if m.counters.get('groups_compared', 0) < 40:
        v.inconclusive_because('only %d groups compared' %
                               m.counters.get('groups_compared', 0))
    cov['programs'] = m.counters.get('programs', 0)
    cov['disagreements_checked'] = m.counters.get('groups_compared', 0)
    return harness.finish(
        PROP, tier, 'translation_validation', m, v, T,
        rule='program = 3-6 groups of 1-2 equation instances + kernel + 2-3 '
             'arrays with typed / strided properties and constants; '
             '(b) generated equation classes from a grammar over the '
             'documented subset (all pair symbols, helpers, declared locals '
             'and matrices, instance attributes, t/dt, loop_all, reduce), '
             '(a) shipped equation classes, six per program, instantiated '
             'from a recipe with strides inferred by probing the Python '
             'method; after every group all properties and constants are '
             'compared with the reference interpreter started from the '
             'compiled state before that group; arithmetic-only programs '
             'bit-exact, others <= 64 (512 for shipped) ulp',
        assumptions=['neighbours in the order the real NNPS returns them '
                     '(its exactness is C01)',
                     'groups whose Python meaning is undefined (division by '
                     'zero, sqrt of a negative) are discarded and counted',
                     'shipped classes that use _cython_code_, py_initialize, '
                     'reduce or converged, or whose Python method does not '
                     'run under CPython, are listed as not compared'],
        extra_cov=cov, min_evaluations=40, min_distinct=10)


_orig_work = work


def work(item):     # noqa: F811 - fill in the batch lazily (needs pysph)
    if item['kind'] == 'shipped' and item.get('batch') is None:
        names = sorted(ec.equation_classes())
        item = dict(item, batch=names[item['k'] * 6:item['k'] * 6 + 6])
    return _orig_work(item)


def replay(path):
    with open(path) as fp:
        r = json.load(fp)
    print(json.dumps(r, indent=1)[:3000])
    return 1
