"""C13 - the small dense linear-algebra helpers solve what they are given.

Reference-model monitors: numpy (float64 / longdouble) residuals and
conditioning for gj_solve, the definitions for the product / identity /
augmentation helpers, and residual + orthonormality for the 3x3 symmetric
eigen-decomposition (compiled, also replayed under ASan/UBSan)."""
import json
import math

import numpy as np

from vlib import common, harness

PROP = 'C13'
EPS = float(np.finfo(float).eps)


class Mon(object):
    def __init__(self):
        self.viol = []
        self.cnt = {}

    def c(self, k, n=1):
        self.cnt[k] = self.cnt.get(k, 0) + n

    def bad(self, key, what, case):
        if sum(1 for v in self.viol if v['key'] == key) < 3:
            self.viol.append(dict(key=key, what=what, case=case))
        self.c('violating_observations')


# ------------------------------------------------------------- generators
def gen_matrix(rng, n):
    kind = str(rng.choice(['normal', 'zero_pivot', 'zero_minor', 'tiny_pivot',
                           'perm_dd', 'row_scaled', 'integer', 'scaled',
                           'moment', 'tiny_scale', 'graded_pivot']))
    A = rng.normal(size=(n, n))
    if kind == 'zero_pivot' and n > 1:
        A[0, 0] = 0.0
    elif kind == 'zero_minor' and n > 2:
        A[1, :2] = A[0, :2] * float(rng.normal())   # leading 2x2 singular
    elif kind == 'tiny_pivot':
        A[0, 0] = float(rng.normal()) * 10.0 ** rng.uniform(-18, -10)
    elif kind == 'perm_dd':
        A = rng.uniform(-1, 1, size=(n, n)) + np.diag(
            rng.choice([-1, 1], size=n) * (n + rng.uniform(0, 2, size=n)))
        A = A[rng.permutation(n)]
    elif kind == 'row_scaled':
        A = np.diag(10.0 ** rng.uniform(-5, 5, size=n)) @ A
    elif kind == 'integer':
        for _ in range(20):
            A = rng.integers(-3, 4, size=(n, n)).astype(float)
            if abs(round(np.linalg.det(A))) >= 1:
                break
        else:
            A = np.eye(n)
    elif kind == 'scaled':
        A = A * 10.0 ** rng.uniform(-6, 6)
    elif kind == 'moment':
        # SPH moment matrix: sum w [1,x][1,x]^T of a few random points
        pts = rng.uniform(-1, 1, size=(n + int(rng.integers(1, 6)), n - 1)) \
            if n > 1 else np.zeros((3, 0))
        B = np.hstack([np.ones((len(pts), 1)), pts])
        w = rng.uniform(0.1, 1, size=len(pts))
        A = (B * w[:, None]).T @ B
    elif kind == 'tiny_scale':
        A = A * 10.0 ** rng.uniform(-16, -11)
    elif kind == 'graded_pivot' and n > 2:
        # in column k the diagonal entry is zero or tiny, one row below holds
        # the pivot to take and a *later* row an entry that is bigger than
        # the diagonal but far smaller than that pivot
        k = int(rng.integers(0, n - 2))
        if k:
            A[:k, :] = 0.0
            A[:, :k] = 0.0
            A[:k, :k] = np.diag(rng.uniform(0.5, 2.0, size=k))
        tiny = 0.0 if rng.random() < 0.4 else 10.0 ** rng.uniform(-13, -5)
        r1 = int(rng.integers(k + 1, n - 1))
        r2 = int(rng.integers(r1 + 1, n))
        A[k:, k] = 0.0
        A[k, k] = tiny
        A[r1, k] = float(rng.choice([-1, 1])) * rng.uniform(0.5, 2.0)
        A[r2, k] = float(rng.choice([-1, 1])) * max(
            10.0 ** rng.uniform(-9, -3), 10.0 * tiny)
    return kind, A


def call_gj(gj, A, B):
    n = A.shape[0]
    nb = B.shape[1]
    m = np.hstack([A, B]).ravel().tolist()
    res = [float('nan')] * (n * nb)
    try:
        rc = gj(m, n, nb, res)
    except ZeroDivisionError:
        return 'zerodiv', None
    return rc, np.array(res).reshape(n, nb)


def check_gj(mon, gj, rng, case_id):
    n = int(rng.integers(1, 7))
    nb = int(rng.integers(1, 4))
    kind, A = gen_matrix(rng, n)
    B = rng.normal(size=(n, nb)) * 10.0 ** rng.uniform(-3, 3)
    if rng.random() < 0.1:
        B[:, -1] = 0.0
    case = dict(id=case_id, n=n, nb=nb, kind=kind, A=A.tolist(), B=B.tolist())
    sv = np.linalg.svd(A, compute_uv=False)
    if sv[-1] == 0 or not np.all(np.isfinite(sv)):
        mon.c('gj_singular_generated')
        return None
    cond = float(sv[0] / sv[-1])
    if cond > 1e8:
        mon.c('gj_illconditioned_unasserted')
        rc, X = call_gj(gj, A, B)
        return None
    rc, X = call_gj(gj, A, B)
    mon.c('gj_asserted')
    mon.c('gj_kind_' + kind)
    if rc != 0:
        # scale dependent refusal?
        s = 2.0 ** (-math.floor(math.log2(sv[0])))
        rc2, X2 = call_gj(gj, A * s, B * s)
        if rc2 == 0 and sv[0] < 1e-9:
            key = 'absolute-pivot-threshold'
        else:
            key = 'nonsingular-reported-singular'
        mon.bad(key, 'gj_solve returned %r for a %dx%d matrix with cond %.3g, '
                'sigma_max %.3g (kind %s); rescaled to unit norm it returns %r'
                % (rc, n, n, cond, sv[0], kind, rc2), case)
        return kind
    if X is None or not np.all(np.isfinite(X)):
        mon.bad('nonfinite-solution', 'rc=0 but solution %r (cond %.3g, kind '
                '%s)' % (X, cond, kind), case)
        return kind
    Al = A.astype(np.longdouble)
    R = np.asarray(Al @ X.astype(np.longdouble) - B.astype(np.longdouble),
                   dtype=float)
    for j in range(nb):
        bn = float(np.linalg.norm(B[:, j]))
        bound = 1e3 * n * EPS * cond * bn + 1e-300
        if not float(np.linalg.norm(R[:, j])) <= bound:
            mon.bad('residual', 'column %d: |Ax-b|=%.3g > bound %.3g (cond '
                    '%.3g, |b| %.3g, kind %s, n=%d)' % (
                        j, float(np.linalg.norm(R[:, j])), bound, cond, bn,
                        kind, n), case)
            break
    return kind


def check_products(mon, L, rng, case_id):
    n = int(rng.integers(1, 7))
    a = rng.normal(size=(n, n)) * 10.0 ** rng.uniform(-3, 3)
    b = rng.normal(size=(n, n))
    v = rng.normal(size=n)
    case = dict(id=case_id, n=n, a=a.tolist(), b=b.tolist(), v=v.tolist())
    res = [float('nan')] * (n * n)
    L.mat_mult(a.ravel().tolist(), b.ravel().tolist(), n, res)
    want = np.zeros((n, n))
    for i in range(n):
        for k in range(n):
            s = 0.0
            for j in range(n):
                s += float(a[i, j]) * float(b[j, k])
            want[i, k] = s
    mon.c('products_compared', 4)
    if not np.array_equal(np.array(res).reshape(n, n), want):
        mon.bad('mat_mult', 'differs from the definition', case)
    if not np.allclose(np.array(res).reshape(n, n), a @ b, rtol=1e-12,
                       atol=1e-12 * np.abs(a).max() * np.abs(b).max()):
        mon.bad('mat_mult', 'differs from numpy a@b', case)
    r2 = [float('nan')] * n
    L.mat_vec_mult(a.ravel().tolist(), v.tolist(), n, r2)
    if not np.allclose(r2, a @ v, rtol=1e-12,
                       atol=1e-12 * np.abs(a).max() * np.abs(v).max()):
        mon.bad('mat_vec_mult', 'differs from numpy a@v', case)
    ident = [float('nan')] * (n * n)
    L.identity(ident, n)
    if not np.array_equal(np.array(ident).reshape(n, n), np.eye(n)):
        mon.bad('identity', 'not the identity: %r' % ident, case)
    w = rng.normal(size=n)
    d = L.dot(v.tolist(), w.tolist(), n)
    if not abs(d - float(v @ w)) <= 1e-12 * (np.abs(v) @ np.abs(w) + 1e-300):
        mon.bad('dot', '%r vs %r' % (d, float(v @ w)), case)
    # augmented matrix: n rows of interest out of nmax, na columns
    nmax = int(rng.integers(n, 7))
    na = int(rng.integers(1, 4))
    Amax = rng.normal(size=(nmax, nmax))
    bb = rng.normal(size=(n, na))
    out = [float('nan')] * ((nmax + na) * nmax)
    L.augmented_matrix(Amax.ravel().tolist(), bb.ravel().tolist(), n, na,
                       nmax, out)
    got = np.array(out[:(n + na) * n]).reshape(n, n + na)
    wantm = np.hstack([Amax[:n, :n], bb])
    mon.c('augmented_compared')
    if not np.array_equal(got, wantm):
        mon.bad('augmented_matrix', 'n=%d na=%d nmax=%d: %r vs %r' % (
            n, na, nmax, got.tolist(), wantm.tolist()), case)
    else:
        # and the documented composition: augmented_matrix + gj_solve
        sv = np.linalg.svd(Amax[:n, :n], compute_uv=False)
        if sv[-1] > 0 and sv[0] / sv[-1] < 1e6:
            res = [float('nan')] * (n * na)
            rc = L.gj_solve(out, n, na, res)
            mon.c('augmented_then_solve')
            if rc == 0:
                X = np.array(res).reshape(n, na)
                if not np.allclose(Amax[:n, :n] @ X, bb, rtol=0,
                                   atol=1e-6 * (np.abs(bb).max() + 1e-300)):
                    mon.bad('augmented+gj_solve', 'solution does not satisfy '
                            'the system', case)


# --------------------------------------------------------------- eigen
def gen_sym(rng):
    kind = str(rng.choice(['random', 'diagonal', 'rank1', 'rank2', 'double',
                           'triple', 'nearly_diag', 'zero', 'integer',
                           'near_double', 'one_offdiag']))
    Q, _ = np.linalg.qr(rng.normal(size=(3, 3)))
    if kind == 'random':
        A = rng.normal(size=(3, 3))
        A = A + A.T
    elif kind == 'diagonal':
        A = np.diag(rng.normal(size=3))
    elif kind == 'rank1':
        v = rng.normal(size=3)
        A = np.outer(v, v)
    elif kind == 'rank2':
        A = Q @ np.diag([float(rng.normal()), float(rng.normal()), 0.0]) @ Q.T
    elif kind == 'double':
        a, b = rng.normal(size=2)
        A = Q @ np.diag([a, a, b]) @ Q.T
    elif kind == 'triple':
        A = float(rng.normal()) * np.eye(3)
    elif kind == 'nearly_diag':
        A = np.diag(rng.normal(size=3))
        E = rng.normal(size=(3, 3)) * 10.0 ** rng.uniform(-12, -3)
        A = A + E + E.T
    elif kind == 'zero':
        A = np.zeros((3, 3))
    elif kind == 'integer':
        A = rng.integers(-3, 4, size=(3, 3)).astype(float)
        A = A + A.T
    elif kind == 'near_double':
        a, b = rng.normal(size=2)
        A = Q @ np.diag([a, a * (1 + 10.0 ** rng.uniform(-15, -6)), b]) @ Q.T
    else:
        A = np.diag(rng.normal(size=3))
        i, j = rng.choice(3, size=2, replace=False)
        A[i, j] = A[j, i] = float(rng.normal())
    A = 0.5 * (A + A.T)
    A = A * 10.0 ** float(rng.choice([0, 0, rng.uniform(-8, 8),
                                      rng.uniform(-100, 100)]))
    return kind, np.ascontiguousarray(A)


def check_eig(mon, L3, rng, case_id):
    kind, A = gen_sym(rng)
    case = dict(id=case_id, kind=kind, A=A.tolist())
    nA = float(np.linalg.norm(A))
    d, V = L3.py_eigen_decompose_eispack(A.copy())
    mon.c('eig_asserted')
    mon.c('eig_kind_' + kind)
    if not (np.all(np.isfinite(d)) and np.all(np.isfinite(V))):
        mon.bad('eig-nonfinite', 'd=%r V=%r (kind %s)' % (d, V, kind), case)
        return kind
    Al = A.astype(np.longdouble)
    Vl = V.astype(np.longdouble)
    r = float(np.abs(Al @ Vl - Vl * d.astype(np.longdouble)[None, :]).max())
    o = float(np.abs(Vl.T @ Vl - np.eye(3)).max())
    if not r <= 200 * EPS * nA + 1e-300:
        mon.bad('eig-residual', '|AV - V diag d|max = %.3g, |A| = %.3g '
                '(kind %s)' % (r, nA, kind), case)
    if not o <= 200 * EPS:
        mon.bad('eig-orthonormal', '|V^T V - I|max = %.3g (kind %s)' % (
            o, kind), case)
    # the reconstruction used by the solid-mechanics equations
    Rab = L3.py_transform_diag_inv(np.ascontiguousarray(d),
                                   np.ascontiguousarray(V))
    mon.c('transform_compared')
    if not float(np.abs(Rab - A).max()) <= 400 * EPS * nA + 1e-300:
        mon.bad('transform_diag_inv', 'V diag(d) V^T differs from A by %.3g '
                '(|A| %.3g, kind %s)' % (float(np.abs(Rab - A).max()), nA,
                                         kind), case)
    # observation only: the closed-form route (not used by the equations)
    try:
        d2, V2 = L3.py_get_eigenvalvec(A.copy())
        r2 = float(np.abs(A @ V2 - V2 * d2[None, :]).max())
        if not (np.all(np.isfinite(V2)) and r2 <= 1e-6 * nA + 1e-300):
            mon.c('observed_get_eigenvalvec_inaccurate')
        else:
            mon.c('observed_get_eigenvalvec_ok')
    except Exception:
        mon.c('observed_get_eigenvalvec_raised')
    return kind


def check_transpiled(mon, seed, lo, hi):
    """The helpers as the equations use them: transpiled, called from a
    generated evaluator, one system per particle, against the same Python
    functions (bit for bit: arithmetic only, same order of operations)."""
    import pysph.sph.wc.linalg as L
    from pysph.base.utils import get_particle_array
    from pysph.tools.sph_evaluator import SPHEvaluator
    from vlib.linkit import VLinalg
    N = hi - lo
    A = np.zeros((N, 36))
    B = np.zeros((N, 36))
    V = np.zeros((N, 6))
    ns = np.zeros(N, dtype=np.int32)
    kinds = []
    for k in range(N):
        rng = np.random.default_rng(common.case_seed(PROP, 'tr', seed, lo + k))
        n = int(rng.integers(1, 7))
        kind, a = gen_matrix(rng, n)
        kinds.append(kind)
        ns[k] = n
        A[k, :n * n] = a.ravel()
        B[k, :n * n] = rng.normal(size=n * n)
        V[k, :n] = rng.normal(size=n) * 10.0 ** rng.uniform(-3, 3)
    pa = get_particle_array(name='a', x=np.arange(N) * 1.0, h=np.ones(N))
    pa.add_property('n', type='int', data=ns)
    for nm, st, data in (('A', 36, A), ('B', 36, B), ('vec', 6, V),
                         ('AB', 36, None), ('Av', 6, None), ('I', 36, None),
                         ('sol', 6, None), ('rc', 1, None), ('dot', 1, None)):
        pa.add_property(nm, stride=st, data=None if data is None
                        else data.ravel())
    import contextlib
    import io
    with contextlib.redirect_stdout(io.StringIO()):
        ev = SPHEvaluator([pa], [VLinalg(dest='a', sources=None)], dim=1)
        ev.evaluate()
    g = lambda nm, st: pa.get(nm).reshape(N, st)       # noqa
    AB, Av, I_, X, RC, DOT = (g('AB', 36), g('Av', 6), g('I', 36), g('sol', 6),
                              g('rc', 1), g('dot', 1))
    for k in range(N):
        n = int(ns[k])
        a = A[k, :36].tolist()
        b = B[k, :36].tolist()
        v = V[k, :6].tolist()
        ab = [7250.0] * 36
        ident = [-3500.0] * 36
        av = [1125.0] * 6
        res = [9.5] * 6
        aug = [-77.0] * 42
        L.mat_mult(a, b, n, ab)
        L.mat_vec_mult(a, v, n, av)
        L.identity(ident, n)
        d = L.dot(v, av, n)
        L.augmented_matrix(a, v, n, 1, n, aug)
        try:
            rc = L.gj_solve(aug, n, 1, res)
        except ZeroDivisionError:
            rc = None
        mon.c('transpiled_systems')
        case = dict(id=lo + k, n=n, kind=kinds[k], A=A[k, :n * n].tolist(),
                    v=V[k, :n].tolist())
        for lab, got, want in (('mat_mult', AB[k], ab),
                               ('mat_vec_mult', Av[k], av),
                               ('identity', I_[k], ident),
                               ('dot', DOT[k], [d])):
            w = np.array(want, dtype=float)
            if not np.array_equal(np.asarray(got)[:len(w)], w,
                                  equal_nan=True):
                j = int(np.nonzero(~((np.asarray(got)[:len(w)] == w) | (
                    np.isnan(w))))[0][0])
                mon.bad('transpiled:' + lab, 'entry %d: transpiled %r, '
                        'Python %r (n=%d)' % (j, float(got[j]), float(w[j]),
                                              n), case)
        if rc is None:
            continue
        if float(RC[k, 0]) != float(rc):
            mon.bad('transpiled:gj_solve', 'return code: transpiled %r, '
                    'Python %r (n=%d, kind %s)' % (float(RC[k, 0]), rc, n,
                                                   kinds[k]), case)
        elif rc == 0:
            w = np.array(res, dtype=float)
            if not np.array_equal(X[k], w, equal_nan=True):
                # division and fabs are exact too; allow nothing but the
                # bits to differ only if both are non-finite
                if np.all(np.isfinite(w)) or np.all(np.isfinite(X[k])):
                    j = int(np.nonzero(X[k] != w)[0][0])
                    mon.bad('transpiled:gj_solve', 'solution entry %d: '
                            'transpiled %r, Python %r (n=%d, kind %s)' % (
                                j, float(X[k][j]), float(w[j]), n,
                                kinds[k]), case)


def work(item):
    mon = Mon()
    if item.get('kind') == 'transpiled':
        check_transpiled(mon, item['seed'], item['lo'], item['hi'])
        return dict(evaluations=item['hi'] - item['lo'],
                    distinct=['t%d' % item['lo']], violations=mon.viol,
                    counters=mon.cnt, samples=[], sets=dict(kinds=[]))
    import pysph.sph.wc.linalg as L
    import pysph.base.linalg3 as L3
    if 'replay' in item:
        rep = item['replay']
        lo, hi = rep['id'], rep['id'] + 1
    else:
        lo, hi = item['lo'], item['hi']
    distinct = []
    samples = []
    kinds = set()
    for idx in range(lo, hi):
        rng = np.random.default_rng(common.case_seed(PROP, item['seed'], idx))
        k1 = check_gj(mon, L.gj_solve, rng, idx)
        if idx % 4 == 0:
            check_products(mon, L, rng, idx)
        k2 = check_eig(mon, L3, rng, idx)
        if k1:
            distinct.append('%d' % idx)
            kinds.add('gj:' + k1)
        kinds.add('eig:' + k2)
        if idx == lo and idx % 8000 == 0:
            samples.append(dict(index=idx, gj_kind=k1, eig_kind=k2))
    return dict(evaluations=hi - lo, distinct=distinct, violations=mon.viol,
                counters=mon.cnt, samples=samples,
                sets=dict(kinds=sorted(kinds)))


def run(tier):
    T = common.Timer()
    n = 24000 if tier == 'quick' else 600000
    items = [dict(seed=common.seed(), lo=a, hi=b, flavour='plain')
             for a, b in harness.chunks(n, 500 if tier == 'quick' else 5000)]
    # the compiled eigen code again under ASan/UBSan (hand-indexed 3x3
    # arrays, divisions in tql2)
    na = 6000 if tier == 'quick' else 60000
    items += [dict(seed=common.seed() + 7919, lo=a, hi=b, flavour='asan')
              for a, b in harness.chunks(na, 1000)]
    nt = 4000 if tier == 'quick' else 60000
    items += [dict(seed=common.seed(), kind='transpiled', lo=a, hi=b,
                   flavour='plain') for a, b in harness.chunks(nt, 500)]
    m = harness.execute('checks.c13', items, timeout=3600)
    v = common.Verdict(PROP)
    cov = harness.san_violations(m, v)
    for key in ('gj_asserted', 'eig_asserted', 'products_compared',
                'augmented_compared', 'transform_compared',
                'transpiled_systems'):
        if m.counters.get(key, 0) < 100:
            v.inconclusive_because('monitor %s fired %d times' % (
                key, m.counters.get(key, 0)))
    return harness.finish(
        PROP, tier, 'exploration', m, v, T,
        rule='case index -> one linear system (n 1..6, nb 1..3, ten matrix '
             'families incl. zero / tiny leading pivot, singular leading '
             'minor, permuted diagonally dominant, row-scaled, integer, '
             'moment matrices, tiny scale), one symmetric 3x3 matrix (eleven '
             'families incl. repeated / zero eigenvalues, scales 1e-100..'
             '1e100) and, every 4th, the product/identity/augmentation '
             'helpers; non-trivial = non-singular system with cond <= 1e8 '
             '(the asserted domain); distinct = case index',
        assumptions=['gj_solve asserted for cond_2(A) <= 1e8 only; bound '
                     '1e3*n*eps*cond*|b| on the residual (long double)',
                     'singular inputs are generated but nothing is asserted '
                     'about them (the property does not)',
                     'eigen: |AV-Vd| <= 200 eps |A|, |V^T V - I| <= 200 eps',
                     'asan flavour replays a sixth of the workload'],
        extra_cov=cov, min_evaluations=1000, min_distinct=500)


def replay(path):
    with open(path) as fp:
        r = json.load(fp)
    from vlib import runner
    res = runner.run_one('checks.c13', dict(replay=r['case'],
                                            seed=common.seed()))
    print(json.dumps(res, indent=1)[:5000])
    return 1 if res.get('violations') else 0
