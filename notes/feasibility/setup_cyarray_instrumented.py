from setuptools import setup, Extension
from Cython.Build import cythonize
import numpy
setup(name='cyarray_inst', ext_modules=cythonize([Extension('cyarray.carray', ['cyarray/carray.pyx'], include_dirs=[numpy.get_include()], language='c++')], language_level=3), script_args=['build_ext','--inplace'])
