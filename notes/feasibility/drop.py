import numpy as np
from pysph.solver.application import Application
from pysph.sph.scheme import WCSPHScheme
from pysph.base.utils import get_particle_array
class Drop(Application):
    def create_particles(self):
        dx=0.05; x,y=np.mgrid[-0.5:0.5+1e-9:dx,-0.5:0.5+1e-9:dx]; x=x.ravel(); y=y.ravel()
        k=(x*x+y*y)<0.25; x=x[k]; y=y[k]
        pa=get_particle_array(name='fluid',x=x,y=y,h=1.3*dx,m=dx*dx,rho=1.0,u=-100*x,v=100*y)
        pa.add_property('uid',type='int',data=np.arange(len(x)))
        self.scheme.setup_properties([pa])
        pa.add_property('uid',type='int',data=np.arange(len(x)))
        return [pa]
    def create_scheme(self):
        return WCSPHScheme(['fluid'],[],dim=2,rho0=1.0,c0=1400.0,h0=0.065,hdx=1.3,gamma=7.0,alpha=0.1,beta=0.0)
    def configure_scheme(self):
        self.scheme.configure_solver(dt=5e-6,tf=1e-4,adaptive_timestep=False,pfreq=1000)
if __name__=='__main__':
    app=Drop(); app.run()
    pa=app.particles[0]; import hashlib
    o=np.argsort(pa.uid)
    print('RESULT n',len(pa.x),'hash',hashlib.md5(np.concatenate([pa.x[o],pa.y[o],pa.u[o],pa.rho[o]]).tobytes()).hexdigest())
