import numpy as np, math, types
from pysph.base.utils import get_particle_array
from pysph.base.kernels import CubicSpline, Gaussian, WendlandQuintic
from pysph.sph.equation import Equation, Group
from pysph.sph.basic_equations import SummationDensity
from pysph.sph.wc.basic import MomentumEquation, TaitEOS
from pysph.tools.sph_evaluator import SPHEvaluator
from cyarray.api import UIntArray
import pysph; print(pysph.__file__)
rng=np.random.default_rng(3)
def mk():
    n=120
    pa = get_particle_array(name='f', x=rng.random(n), y=rng.random(n), h=0.08+0.04*rng.random(n), m=0.01*(1+rng.random(n)),
                            rho=1+rng.random(n), p=rng.random(n), u=rng.random(n), v=rng.random(n), cs=10+rng.random(n), au=0., av=0., aw=0., dt_cfl=0., dt_force=0.)
    return pa
state = rng.bit_generator.state
for K in (CubicSpline, Gaussian, WendlandQuintic):
    rng.bit_generator.state = state
    pa = mk(); k=K(dim=2)
    eqs=[Group([SummationDensity('f',['f'])]), Group([MomentumEquation('f',['f'],c0=10.0,alpha=0.5,beta=0.3)])]
    ref = {n_: pa.get(n_).copy() for n_ in pa.properties}
    ev = SPHEvaluator([pa], eqs, dim=2, kernel=k)
    ev.evaluate()
    # reference
    nn = ev.nnps; nb=UIntArray()
    x,y,z,h,m,rho,p,u,v,w,cs = (ref[q] for q in 'x y z h m rho p u v w cs'.split())
    rho2=np.zeros_like(rho)
    au=np.zeros_like(rho); av=np.zeros_like(rho); aw=np.zeros_like(rho)
    e2 = MomentumEquation('f',['f'],c0=10.0,alpha=0.5,beta=0.3)
    DW=[0.,0.,0.]
    import inspect; ARGS=inspect.getfullargspec(e2.loop).args[1:]; dtc=np.zeros(len(x)); dtf=np.zeros(len(x))
    for i in range(len(x)):
        nn.get_nearest_particles(0,0,i,nb); js=list(nb.get_npy_array())
        for j in js:
            XIJ=[x[i]-x[j], y[i]-y[j], z[i]-z[j]]; R2=XIJ[0]*XIJ[0]+XIJ[1]*XIJ[1]+XIJ[2]*XIJ[2]; R=math.sqrt(R2)
            HIJ=0.5*(h[i]+h[j]); rho2[i]+= m[j]*k.kernel(XIJ,R,HIJ)
    d=dict(d_rho=rho2,s_rho=rho2,d_cs=cs,s_cs=cs,d_p=p,s_p=p,d_au=au,d_av=av,d_aw=aw,s_m=m)
    for i in range(len(x)):
        nn.get_nearest_particles(0,0,i,nb); js=list(nb.get_npy_array())
        for j in js:
            XIJ=[x[i]-x[j], y[i]-y[j], z[i]-z[j]]; R2=XIJ[0]*XIJ[0]+XIJ[1]*XIJ[1]+XIJ[2]*XIJ[2]; R=math.sqrt(R2)
            HIJ=0.5*(h[i]+h[j]); k.gradient(XIJ,R,HIJ,DW)
            VIJ=[u[i]-u[j], v[i]-v[j], w[i]-w[j]]
            RHOIJ=0.5*(rho2[i]+rho2[j])
            allkw=dict(d_idx=i,s_idx=j,RHOIJ1=1.0/RHOIJ,HIJ=HIJ,DWIJ=DW,VIJ=VIJ,XIJ=XIJ,R2IJ=R2,EPS=0.01*HIJ*HIJ,WIJ=k.kernel(XIJ,R,HIJ),WDP=k.kernel(XIJ,k.get_deltap()*HIJ,HIJ),d_dt_cfl=dtc,d_dt_force=dtf,**d)
            e2.loop(**{a:allkw[a] for a in ARGS})
    print(K.__name__, 'rho bitwise', np.array_equal(rho2, pa.rho), 'maxrel', np.max(np.abs(rho2-pa.rho)/pa.rho),
          'au bitwise', np.array_equal(au, pa.au), 'max|d|', np.max(np.abs(au-pa.au)), 'scale', np.max(np.abs(au)))
