import numpy as np, sys
from pysph.base.utils import get_particle_array
from pysph.base import nnps
from cyarray.api import UIntArray
def brute(pas, s, d, i, rs):
    S, D = pas[s], pas[d]
    dx = np.sqrt((S.x-D.x[i])**2+(S.y-D.y[i])**2+(S.z-D.z[i])**2)
    return set(np.where((dx < rs*D.h[i]) | (dx < rs*S.h))[0])
rng = np.random.default_rng(1)
a = get_particle_array(name='a', x=rng.random(40)*4, y=rng.random(40)*4, h=0.2)
b = get_particle_array(name='b', x=rng.random(5)*4, y=rng.random(5)*4, h=0.2)
classes = ['LinkedListNNPS','BoxSortNNPS','DictBoxSortNNPS','SpatialHashNNPS','ExtendedSpatialHashNNPS','CellIndexingNNPS','ZOrderNNPS','ExtendedZOrderNNPS','StratifiedHashNNPS','StratifiedSFCNNPS','OctreeNNPS','CompressedOctreeNNPS']
which = sys.argv[1:] or classes
for cn in which:
    pas = [a, b]
    try:
        n = getattr(nnps, cn)(dim=2, particles=pas, radius_scale=2.0)
    except Exception as e:
        print(cn, 'CTOR EXC', repr(e)); continue
    bad = 0; tot = 0
    nb = UIntArray()
    for d in range(2):
        for s in range(2):
            for i in range(pas[d].get_number_of_particles()):
                n.get_nearest_particles(s, d, i, nb)
                got = list(nb.get_npy_array())
                exp = brute(pas, s, d, i, 2.0)
                tot += 1
                if set(got) != exp or len(got) != len(set(got)):
                    bad += 1
    print(cn, 'queries', tot, 'mismatch', bad)
