"""Prototype: controlled scheduler + instrumented threading for
pysph.solver.controller.  One real OS thread per logical thread, exactly one
runs at a time; switches only at synchronisation operations."""
import sys, random, _thread, threading as real_threading, types, importlib


class Deadlock(Exception):
    pass


class Sched:
    def __init__(self, seed):
        self.rng = random.Random(seed)
        self.threads = {}      # name -> state dict
        self.current = None
        self.trace = []
        self.mutex = real_threading.Lock()
        self.done = real_threading.Event()
        self.error = None
        self.steps = 0

    # --- thread management
    def spawn(self, name, fn):
        st = dict(name=name, gate=real_threading.Semaphore(0), blocked=None,
                  finished=False, ident=len(self.threads) + 1)
        self.threads[name] = st

        def run():
            st['gate'].acquire()
            try:
                fn()
            except BaseException as e:   # noqa
                if not isinstance(e, SystemExit):
                    self.error = e
            st['finished'] = True
            self._switch(st, leaving=True)
        t = real_threading.Thread(target=run, daemon=True)
        st['thread'] = t
        t.start()

    def me(self):
        return self.current

    def enabled(self):
        return [s for s in self.threads.values()
                if not s['finished'] and (s['blocked'] is None or s['blocked']())]

    def _switch(self, st, leaving=False):
        """Pick next thread to run; block st until chosen again."""
        self.steps += 1
        en = self.enabled()
        if not en:
            if all(s['finished'] for s in self.threads.values()):
                self.done.set()
                return
            self.error = Deadlock({s['name']: s.get('why') for s in self.threads.values() if not s['finished']})
            self.done.set()
            if not leaving:
                _thread.exit()
            return
        if self.steps > 20000:
            self.error = RuntimeError('step budget')
            self.done.set()
            if not leaving:
                _thread.exit()
            return
        nxt = self.rng.choice(en)
        self.current = nxt
        if nxt is st:
            return
        nxt['gate'].release()
        if not leaving:
            st['gate'].acquire()

    def yield_point(self, op, obj, block_pred=None, why=None):
        st = self.current
        self.trace.append((st['name'], op, getattr(obj, 'name', '')))
        st['blocked'] = block_pred
        st['why'] = why
        self._switch(st)
        st['blocked'] = None

    def run(self):
        first = self.rng.choice(list(self.threads.values()))
        self.current = first
        first['gate'].release()
        self.done.wait(60)
        return self.error


S = None


class ILock:
    _n = 0

    def __init__(self, name=None):
        ILock._n += 1
        self.name = name or 'L%d' % ILock._n
        self.owner = None
        self.count = 0
        self.reentrant = False

    @property
    def __class__(self):
        return _thread.LockType

    def acquire(self, blocking=True, timeout=-1):
        me = S.me()
        if self.reentrant and self.owner is me:
            self.count += 1
            return True
        S.yield_point('acquire', self, lambda: self.owner is None, why=('lock', self.name))
        assert self.owner is None
        self.owner = S.me()
        self.count = 1
        return True

    def release(self):
        assert self.owner is S.me() or not self.reentrant
        self.count -= 1
        if self.count <= 0:
            self.owner = None
            self.count = 0
        S.yield_point('release', self)

    def locked(self):
        return self.owner is not None

    __enter__ = acquire

    def __exit__(self, *a):
        self.release()


def IRLock():
    l = ILock()
    l.reentrant = True
    return l


class ICondition:
    def __init__(self, lock=None):
        self.lock = lock or IRLock()
        self.name = 'C(%s)' % self.lock.name
        self.waiters = []
        self.acquire = self.lock.acquire
        self.release = self.lock.release

    def __enter__(self):
        return self.lock.__enter__()

    def __exit__(self, *a):
        return self.lock.__exit__(*a)

    def wait(self, timeout=None):
        me = S.me()
        assert self.lock.owner is me
        saved = self.lock.count
        token = [False]
        self.waiters.append(token)
        self.lock.owner = None
        self.lock.count = 0
        S.yield_point('wait', self, lambda: token[0] and self.lock.owner is None, why=('cond', self.name))
        self.lock.owner = S.me()
        self.lock.count = saved
        return True

    def notify(self, n=1):
        for tok in self.waiters[:n]:
            tok[0] = True
        del self.waiters[:n]
        S.yield_point('notify', self)

    def notify_all(self):
        self.notify(len(self.waiters))


class _Cur:
    @property
    def ident(self):
        return S.me()['ident']


shim = types.ModuleType('threading')
shim.Lock = ILock
shim.RLock = IRLock
shim.Condition = ICondition
shim.current_thread = lambda: _Cur()
shim.Thread = real_threading.Thread


def load_controller():
    import logging, functools, pysph.solver, pysph.base.particle_array  # noqa: pre-import deps with the real threading
    saved = sys.modules['threading']
    sys.modules['threading'] = shim
    try:
        sys.modules.pop('pysph.solver.controller', None)
        mod = importlib.import_module('pysph.solver.controller')
    finally:
        sys.modules['threading'] = saved
    return mod


class FakeSolver:
    def __init__(self):
        self.t = 0.0; self.tf = 1.0; self.dt = 0.1; self.count = 0
        self.pfreq = 10; self.fname = 'x'; self.detailed_output = False
        self.output_directory = '.'; self.command_interval = 1
        self.particles = []


def one_run(seed, script):
    global S
    S = Sched(seed)
    ctl = load_controller()
    solver = FakeSolver()
    cm = ctl.CommandManager(solver)
    c = ctl.Controller(cm, block=False)
    stop = [False]
    log = []

    def solver_thread():
        while not stop[0] and solver.count < 50:
            solver.count += 1
            log.append(('step', solver.count))
            cm.execute_commands(solver)
            S.yield_point('stepdone', None)

    def iface():
        for op in script:
            log.append(('call', op))
            if op == 'pause':
                c.pause_on_next()
            elif op == 'wait':
                c.wait()
            elif op == 'cont':
                c.cont()
            elif op == 'set':
                tid = c.set('pfreq', 7)
                log.append(('res', c.get_result(tid)))
            log.append(('ret', op))
        stop[0] = True
    S.spawn('solver', solver_thread)
    S.spawn('iface', iface)
    err = S.run()
    return err, log, len(S.trace)


if __name__ == '__main__':
    for script in (['pause', 'wait', 'cont'], ['pause', 'cont'], ['set', 'set']):
        res = {}
        for seed in range(300):
            err, log, n = one_run(seed, script)
            k = type(err).__name__ if err else 'ok'
            res[k] = res.get(k, 0) + 1
            if err and k not in res.get('_shown', set()):
                res.setdefault('_shown', set()).add(k)
                print(script, 'seed', seed, k, err)
        res.pop('_shown', None)
        print(script, res)
