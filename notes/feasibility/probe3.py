import pysph.base.nnps_base as _nb, cyarray.carray as _ca; print("ORIGIN", _nb.__file__, _ca.__file__)
import numpy as np
from pysph.base.utils import get_particle_array
from pysph.base import nnps
from pysph.base.nnps_base import get_number_of_threads
print('threads', get_number_of_threads())
rng = np.random.default_rng(1)
a = get_particle_array(name='a', x=rng.random(2000), y=rng.random(2000), h=0.03)
b = get_particle_array(name='b', x=rng.random(500), y=rng.random(500), h=0.03)
n = nnps.LinkedListNNPS(dim=2, particles=[a, b], radius_scale=2.0, cache=True)
for rep in range(3):
    for c in n.cache:
        n.set_context(c and 0 or 0, 0)
    for d in range(2):
        for s in range(2):
            n.set_context(s, d)
            n.cache[d*2+s].find_all_neighbors()
    a.x[:] += 0.001
    n.update()
print('done')
