"""Worker process: imports a check module under one flavour's environment and
executes work items read as JSON lines from stdin."""
import importlib
import json
import os
import sys
import traceback


def _origin_ok():
    tree = os.environ.get('VERIF_TREE')
    if not tree:
        return 'VERIF_TREE not set'
    try:
        import pysph.base.nnps_base as nb
        import cyarray.carray as ca
    except Exception as e:
        return 'import failed: %r' % (e,)
    if not os.path.abspath(nb.__file__).startswith(os.path.abspath(tree)):
        return 'pysph imported from %s, not from %s' % (nb.__file__, tree)
    fl = os.environ.get('VERIF_FLAVOUR', 'plain')
    if fl != 'plain':
        deps = os.environ.get('VERIF_DEPS', '')
        if not os.path.abspath(ca.__file__).startswith(os.path.abspath(deps)):
            return 'cyarray imported from %s, not from %s' % (ca.__file__, deps)
    return None


class SanLog(object):
    """Reads what the sanitizer runtime appended to this process's log."""

    def __init__(self):
        base = os.environ.get('VERIF_SANLOG')
        self.path = '%s.%d' % (base, os.getpid()) if base else None
        self.pos = 0

    def delta(self):
        if not self.path or not os.path.exists(self.path):
            return ''
        with open(self.path, 'rb') as fp:
            fp.seek(self.pos)
            data = fp.read()
            self.pos += len(data)
        return data.decode('utf-8', 'replace')


_SAN = None


def san_dirty():
    """True once the sanitizer runtime has reported anything in this process.
    Later observations in a process that has already executed an invalid
    access are not trustworthy (recover mode performs the bad write)."""
    global _SAN
    if _SAN is None:
        _SAN = SanLog()
    try:
        return bool(_SAN.path and os.path.exists(_SAN.path) and
                    os.path.getsize(_SAN.path) > 0)
    except OSError:
        return False


def exit_tainted():
    sys.stderr.flush()
    os._exit(77)


def mark(obj):
    """Leave a breadcrumb on stderr; the runner attaches the last one to a
    crash / watchdog report so that it can be attributed."""
    try:
        os.write(2, b'@@MARK ' + json.dumps(obj, default=str).encode() + b'\n')
    except Exception:
        pass


def main():
    modname = sys.argv[1]
    # the sanitizer runtime is loaded in this process by now; the compilers
    # this process starts (run-time code generation) must not get it (a
    # /bin/sh or g++ with libtsan preloaded dies)
    os.environ.pop('LD_PRELOAD', None)
    out = os.fdopen(os.dup(1), 'wb')
    # anything the repository prints goes to stderr, not into the protocol
    os.dup2(2, 1)
    sys.stdout = sys.stderr
    needs_pysph = True
    mod = importlib.import_module(modname)
    needs_pysph = getattr(mod, 'NEEDS_PYSPH', True)
    bad = _origin_ok() if needs_pysph else None
    san = SanLog()
    for line in sys.stdin:
        line = line.strip()
        if not line:
            continue
        item = json.loads(line)
        if bad:
            res = dict(status='inconclusive', detail=bad)
        else:
            try:
                res = mod.work(item) or {}
                res.setdefault('status', 'ok')
            except BaseException as e:  # noqa
                if isinstance(e, KeyboardInterrupt):
                    raise
                res = dict(status='error', detail=traceback.format_exc()[-4000:],
                           exc=repr(e)[:500])
        from vlib.common import jsonable
        out.write(b'@@RESULT ' + json.dumps(jsonable(res)).encode() + b'\n')
        out.flush()


if __name__ == '__main__':
    main()
