"""Equation that runs the small dense linear-algebra helpers of
pysph.sph.wc.linalg in transpiled form, one system per particle (C13)."""
from compyle.api import declare
from pysph.sph.equation import Equation
from pysph.sph.wc.linalg import (augmented_matrix, dot, gj_solve, identity,
                                 mat_mult, mat_vec_mult)


class VLinalg(Equation):
    def _get_helpers_(self):
        return [identity, dot, mat_mult, mat_vec_mult, augmented_matrix,
                gj_solve]

    def initialize(self, d_idx, d_n, d_A, d_B, d_vec, d_AB, d_Av, d_I, d_sol,
                   d_rc, d_dot):
        a, b, ab, ident = declare('matrix(36)', 4)
        v, av, res = declare('matrix(6)', 3)
        aug = declare('matrix(42)')
        i, n = declare('int', 2)
        n = d_n[d_idx]
        for i in range(36):
            a[i] = d_A[36*d_idx + i]
            b[i] = d_B[36*d_idx + i]
            # what a stack array may hold before it is written
            ab[i] = 7250.0
            ident[i] = -3500.0
        for i in range(6):
            v[i] = d_vec[6*d_idx + i]
            av[i] = 1125.0
            res[i] = 9.5
        for i in range(42):
            aug[i] = -77.0
        mat_mult(a, b, n, ab)
        mat_vec_mult(a, v, n, av)
        identity(ident, n)
        d_dot[d_idx] = dot(v, av, n)
        augmented_matrix(a, v, n, 1, n, aug)
        d_rc[d_idx] = gj_solve(aug, n, 1, res)
        for i in range(36):
            d_AB[36*d_idx + i] = ab[i]
            d_I[36*d_idx + i] = ident[i]
        for i in range(6):
            d_Av[6*d_idx + i] = av[i]
            d_sol[6*d_idx + i] = res[i]
