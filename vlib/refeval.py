"""Reference evaluator: a direct Python interpreter of what the documentation
says an acceleration evaluation *means* (docs/source/design/equations.rst,
the Group docstring), calling the user's own equation methods.  It shares no
code with pysph's code generator."""
import copy
import dis
import ast
import inspect
import textwrap
import math
import types

import numpy as np

PAIR_SYMS = ('HIJ', 'XIJ', 'R2IJ', 'RIJ', 'WIJ', 'WI', 'WJ', 'DWIJ', 'DWI',
             'DWJ', 'VIJ', 'RHOIJ', 'RHOIJ1', 'EPS', 'WDP', 'GHI', 'GHJ',
             'GHIJ', 'WDASHI', 'WDASHJ', 'WDASHIJ')


class PyUndefined(Exception):
    """The Python meaning of the program is undefined here (division by
    zero, sqrt of a negative number, ...): the case is discarded."""


# ------------------------------------------------------------ C math names
def _c_pow(x, y):
    return math.pow(x, y)


C_GLOBALS = dict(
    sqrt=math.sqrt, exp=math.exp, log=math.log, log10=math.log10,
    sin=math.sin, cos=math.cos, tan=math.tan, asin=math.asin, acos=math.acos,
    atan=math.atan, atan2=math.atan2, sinh=math.sinh, cosh=math.cosh,
    tanh=math.tanh, fabs=math.fabs, floor=math.floor, ceil=math.ceil,
    pow=_c_pow, fmax=lambda a, b: a if a >= b else b,
    fmin=lambda a, b: a if a <= b else b, erf=math.erf, erfc=math.erfc,
    M_PI=math.pi, M_PI_2=math.pi / 2, M_PI_4=math.pi / 4,
    M_1_PI=1.0 / math.pi, M_2_PI=2.0 / math.pi,
    M_2_SQRTPI=2.0 / math.sqrt(math.pi), M_E=math.e, M_SQRT2=math.sqrt(2.0),
    M_SQRT1_2=math.sqrt(0.5), M_LN2=math.log(2.0), M_LN10=math.log(10.0),
    M_LOG2E=1.0 / math.log(2.0), M_LOG10E=1.0 / math.log(10.0),
    INFINITY=float('inf'), NAN=float('nan'), HUGE_VAL=float('inf'),
)


def _declare(type_str, num=1):
    """compyle's declare, plus the transpiler's reading of
    `a, b = declare('matrix(3)')` (no count: look at the caller's pending
    UNPACK_SEQUENCE)."""
    frame = inspect.currentframe().f_back
    n = num
    if num == 1:
        code = frame.f_code
        ins = list(dis.get_instructions(code))
        for k, i in enumerate(ins):
            if i.offset > frame.f_lasti and i.opname in (
                    'UNPACK_SEQUENCE',):
                n = i.argval
                break
            if i.offset > frame.f_lasti and i.opname.startswith('STORE'):
                break

    def one():
        t = type_str.replace(' ', '')
        if t.startswith('matrix'):
            dims = t[t.index('(') + 1:t.index(')')].split(',')
            shape = tuple(int(d) for d in dims if d)
            if len(shape) == 1:
                return [0.0] * shape[0]
            return np.zeros(shape).tolist()
        if t in ('int', 'long', 'unsignedint', 'uint'):
            return 0
        return 0.0
    if n == 1:
        return one()
    return tuple(one() for _ in range(n))


def _vpow(a, b):
    """`a ** b` as the transpiled code defines it: with a floating exponent
    Cython evaluates a negative base through complex numbers and refuses the
    result (the particle is silently left as it was), Python returns a real
    or a complex number: no common meaning, the case is discarded."""
    if isinstance(b, float) and isinstance(a, (int, float)) and a < 0:
        raise PyUndefined('negative base %r ** %r' % (a, b))
    return a ** b


class _PowRewriter(ast.NodeTransformer):
    def visit_BinOp(self, node):
        self.generic_visit(node)
        if isinstance(node.op, ast.Pow):
            return ast.copy_location(ast.Call(
                func=ast.Name(id='_vpow', ctx=ast.Load()),
                args=[node.left, node.right], keywords=[]), node)
        return node


def _with_checked_pow(f, g):
    """Re-compile a method from its source with `**` routed through
    _vpow; None when that is not possible."""
    try:
        src = textwrap.dedent(inspect.getsource(f))
        if '**' not in src or f.__closure__:
            return None
        tree = _PowRewriter().visit(ast.parse(src))
        ast.fix_missing_locations(tree)
        ns = {}
        g = dict(g)
        g['_vpow'] = _vpow
        exec(compile(tree, '<vpow:%s>' % f.__qualname__, 'exec'), g, ns)
        nf = ns.get(f.__name__)
        if nf is None:
            return None
        nf.__defaults__ = f.__defaults__
        return nf
    except (OSError, TypeError, SyntaxError):
        return None


def rebind(func):
    """A copy of a function whose globals also know the math.h names and the
    transpiler's `declare` (the original module is not touched)."""
    f = getattr(func, '__func__', func)
    g = dict(C_GLOBALS)
    g.update(f.__globals__)
    g['declare'] = _declare
    for k, v in C_GLOBALS.items():
        g.setdefault(k, v)
    nf = _with_checked_pow(f, g)
    if nf is not None:
        return nf
    nf = types.FunctionType(f.__code__, g, f.__name__, f.__defaults__,
                            f.__closure__)
    return nf


class TypedView(object):
    """Array view with C semantics for non-double element types: reads give
    Python int / float (so arithmetic is done in double / long as in C),
    writes are cast to the element type."""

    def __init__(self, arr):
        self.a = arr
        self.kind = arr.dtype.kind

    def __getitem__(self, i):
        v = self.a[i]
        return int(v) if self.kind in 'iu' else float(v)

    def __setitem__(self, i, v):
        if self.kind in 'iu':
            v = int(v)          # C truncation towards zero
        self.a[i] = v

    def __len__(self):
        return len(self.a)


def view(arr):
    if arr.dtype == np.float64:
        return arr
    return TypedView(arr)


class RefArray(object):
    """Plain-numpy copy of a ParticleArray (values, strides, tags), or -
    with live=True - a window onto a real ParticleArray of a second world
    (re-bound after every domain update, which may resize it)."""

    def __init__(self, pa, live=False):
        self.name = pa.name
        self.pa = pa if live else None
        self.rebind(pa)

    def rebind(self, pa=None):
        pa = pa if pa is not None else self.pa
        live = self.pa is not None
        self.props = {p: (a.get_npy_array() if live else
                          a.get_npy_array().copy())
                      for p, a in pa.properties.items()}
        self.consts = {c: (a.get_npy_array() if live else
                           a.get_npy_array().copy())
                       for c, a in pa.constants.items()}
        self.stride = dict(pa.stride)
        self.n = pa.get_number_of_particles()
        self.n_real = pa.num_real_particles

    def get(self, name):
        if name in self.props:
            return self.props[name]
        return self.consts[name]

    def has(self, name):
        return name in self.props or name in self.consts

    def size(self, real):
        return self.n_real if real else self.n

    # what `reduce`/`py_initialize` get: an object with attribute access
    def __getattr__(self, name):
        d = self.__dict__
        if name in d.get('props', {}):
            return d['props'][name][:d['n_real'] * d['stride'].get(name, 1)]
        if name in d.get('consts', {}):
            return d['consts'][name]
        raise AttributeError(name)

    def get_number_of_particles(self, real=False):
        return self.n_real if real else self.n


class RefEval(object):
    def __init__(self, pas, groups, kernel, neighbours, order_hook=None,
                 live=False):
        """pas: real ParticleArrays (copied); groups: list of Group objects
        (deep-copied so that attribute updates stay separate); neighbours:
        callable (src_index, dst_index, d_idx) -> sequence of source indices
        in the order the sums are to be taken."""
        from pysph.sph.equation import Group
        self.arrays = [RefArray(pa, live) for pa in pas]
        self.byname = {a.name: a for a in self.arrays}
        self.index = {a.name: k for k, a in enumerate(self.arrays)}
        self.kernel = kernel
        self.neighbours = neighbours
        self.groups = groups
        self.events = []
        self._fn = {}
        self.update_nnps = None     # callable invoked for update_nnps groups
        self.before_loop = None

    # ---------------------------------------------------------- calling
    def _call(self, eq, meth, ctx):
        key = (id(eq), meth)
        ent = self._fn.get(key)
        if ent is None:
            m = getattr(eq, meth)
            f = rebind(m)
            args = inspect.getfullargspec(f).args
            ent = (f, args)
            self._fn[key] = ent
        f, args = ent
        try:
            return f(eq, *[ctx[a] for a in args[1:]])
        except (ZeroDivisionError, ValueError, OverflowError) as e:
            raise PyUndefined('%s.%s: %r' % (eq.__class__.__name__, meth, e))

    def _array_ctx(self, prefix, arr, ctx):
        for p, a in arr.props.items():
            ctx[prefix + p] = view(a)
        for c, a in arr.consts.items():
            ctx[prefix + c] = view(a)

    # ------------------------------------------------------- pair symbols
    def _pair(self, ctx, dst, src, i, j, need):
        k = self.kernel
        dh = float(dst.props['h'][i])
        sh = float(src.props['h'][j])
        XIJ = ctx['XIJ']
        XIJ[0] = dst.props['x'][i] - src.props['x'][j]
        XIJ[1] = dst.props['y'][i] - src.props['y'][j]
        XIJ[2] = dst.props['z'][i] - src.props['z'][j]
        HIJ = 0.5 * (dh + sh)
        R2IJ = XIJ[0] * XIJ[0] + XIJ[1] * XIJ[1] + XIJ[2] * XIJ[2]
        RIJ = math.sqrt(R2IJ)
        ctx['HIJ'], ctx['R2IJ'], ctx['RIJ'] = HIJ, R2IJ, RIJ
        ctx['EPS'] = 0.01 * HIJ * HIJ
        xl = [float(XIJ[0]), float(XIJ[1]), float(XIJ[2])]
        try:
            if 'WIJ' in need:
                ctx['WIJ'] = k.kernel(xl, RIJ, HIJ)
            if 'WI' in need:
                ctx['WI'] = k.kernel(xl, RIJ, dh)
            if 'WJ' in need:
                ctx['WJ'] = k.kernel(xl, RIJ, sh)
            if 'WDP' in need:
                ctx['WDP'] = k.kernel(xl, k.get_deltap() * HIJ, HIJ)
            if 'DWIJ' in need:
                k.gradient(xl, RIJ, HIJ, ctx['DWIJ'])
            if 'DWI' in need:
                k.gradient(xl, RIJ, dh, ctx['DWI'])
            if 'DWJ' in need:
                k.gradient(xl, RIJ, sh, ctx['DWJ'])
            if 'GHI' in need:
                ctx['GHI'] = k.gradient_h(xl, RIJ, dh)
            if 'GHJ' in need:
                ctx['GHJ'] = k.gradient_h(xl, RIJ, sh)
            if 'GHIJ' in need:
                ctx['GHIJ'] = k.gradient_h(xl, RIJ, HIJ)
            if 'WDASHI' in need:
                ctx['WDASHI'] = k.dwdq(RIJ, dh)
            if 'WDASHJ' in need:
                ctx['WDASHJ'] = k.dwdq(RIJ, sh)
            if 'WDASHIJ' in need:
                ctx['WDASHIJ'] = k.dwdq(RIJ, HIJ)
        except (ZeroDivisionError, ValueError, OverflowError) as e:
            raise PyUndefined('kernel: %r' % (e,))
        if 'VIJ' in need:
            V = ctx['VIJ']
            V[0] = dst.props['u'][i] - src.props['u'][j]
            V[1] = dst.props['v'][i] - src.props['v'][j]
            V[2] = dst.props['w'][i] - src.props['w'][j]
        if 'RHOIJ' in need or 'RHOIJ1' in need:
            r = 0.5 * (dst.props['rho'][i] + src.props['rho'][j])
            ctx['RHOIJ'] = r
            if r == 0:
                raise PyUndefined('RHOIJ1 = 1/0')
            ctx['RHOIJ1'] = 1.0 / r

    # ------------------------------------------------------------ groups
    def _idx(self, v, dst):
        if isinstance(v, str):
            return int(dst.get(v)[0])
        return v

    def _needs(self, eqs, meth):
        need = set()
        for e in eqs:
            m = getattr(e, meth, None)
            if m is not None:
                need.update(a for a in inspect.getfullargspec(m).args
                            if a in PAIR_SYMS)
        return need

    def _do_group(self, g, t, dt):
        """One pass over a group without sub-groups."""
        if g.pre:
            g.pre()
        eqs = list(g.equations)
        dests = []
        for e in eqs:
            if e.dest not in dests:
                dests.append(e.dest)
        for dname in dests:
            dst = self.byname[dname]
            deqs = [e for e in eqs if e.dest == dname]
            start = self._idx(g.start_idx, dst) if g.start_idx else 0
            stop = self._idx(g.stop_idx, dst) if g.stop_idx is not None \
                else dst.size(g.real)
            ctx = dict(t=t, dt=dt, SPH_KERNEL=self.kernel,
                       XIJ=[0.0, 0.0, 0.0], VIJ=[0.0, 0.0, 0.0],
                       DWIJ=[0.0, 0.0, 0.0], DWI=[0.0, 0.0, 0.0],
                       DWJ=[0.0, 0.0, 0.0], HIJ=0.0, R2IJ=0.0, RIJ=0.0,
                       WIJ=0.0, WI=0.0, WJ=0.0, RHOIJ=0.0, RHOIJ1=0.0,
                       EPS=0.0, WDP=0.0, GHI=0.0, GHJ=0.0, GHIJ=0.0,
                       WDASHI=0.0, WDASHJ=0.0, WDASHIJ=0.0)
            self._array_ctx('d_', dst, ctx)
            for e in deqs:
                if hasattr(e, 'py_initialize'):
                    e.py_initialize(dst, t, dt)
            ieqs = [e for e in deqs if hasattr(e, 'initialize')]
            for i in range(start, stop):
                ctx['d_idx'] = i
                for e in ieqs:
                    self._call(e, 'initialize', ctx)
            nos = [e for e in deqs if e.no_source and hasattr(e, 'loop')]
            for i in range(start, stop):
                ctx['d_idx'] = i
                for e in nos:
                    self._call(e, 'loop', ctx)
            sources = []
            for e in deqs:
                if not e.no_source:
                    for s in e.sources:
                        if s not in sources:
                            sources.append(s)
            for sname in sources:
                src = self.byname[sname]
                seqs = [e for e in deqs if not e.no_source and
                        sname in e.sources]
                self._array_ctx('s_', src, ctx)
                ipair = [e for e in seqs if hasattr(e, 'initialize_pair')]
                for i in range(start, stop):
                    ctx['d_idx'] = i
                    for e in ipair:
                        self._call(e, 'initialize_pair', ctx)
                lall = [e for e in seqs if hasattr(e, 'loop_all')]
                loop = [e for e in seqs if hasattr(e, 'loop')]
                if not lall and not loop:
                    continue
                need = self._needs(loop, 'loop')
                si, di = self.index[sname], self.index[dname]
                if self.before_loop is not None:
                    # let the caller bring the real neighbour search in line
                    # with the state at this moment (h, x may have been
                    # changed by initialize)
                    self.before_loop(self)
                for i in range(start, stop):
                    ctx['d_idx'] = i
                    nb = self.neighbours(si, di, i)
                    if lall:
                        ctx['NBRS'] = nb
                        ctx['N_NBRS'] = len(nb)
                        for e in lall:
                            self._call(e, 'loop_all', ctx)
                    for j in nb:
                        j = int(j)
                        ctx['s_idx'] = j
                        self._pair(ctx, dst, src, i, j, need)
                        for e in loop:
                            self._call(e, 'loop', ctx)
            peqs = [e for e in deqs if hasattr(e, 'post_loop')]
            for i in range(start, stop):
                ctx['d_idx'] = i
                for e in peqs:
                    self._call(e, 'post_loop', ctx)
            for e in deqs:
                if hasattr(e, 'reduce'):
                    e.reduce(dst, t, dt)
        if g.update_nnps and self.update_nnps:
            self.update_nnps()
            for a in self.arrays:
                if a.pa is not None:
                    a.rebind()
        if g.post:
            g.post()

    def _converged(self, g):
        if g.has_subgroups:
            r = True
            for sg in g.equations:
                r = self._converged(sg) and r
            return r
        r = True
        for e in g.equations:
            r = (e.converged() > 0) and r
        return r

    def compute(self, t, dt):
        for g in self.groups:
            if g.condition is not None and not g.condition(t, dt):
                continue
            count = 1
            while True:
                if g.has_subgroups:
                    if g.pre:
                        g.pre()
                    for sg in g.equations:
                        if sg.condition is not None and \
                                not sg.condition(t, dt):
                            continue
                        self._do_group(sg, t, dt)
                    if g.update_nnps and self.update_nnps:
                        self.update_nnps()
                        for a in self.arrays:
                            if a.pa is not None:
                                a.rebind()
                    if g.post:
                        g.post()
                else:
                    self._do_group(g, t, dt)
                if not g.iterate:
                    break
                if count >= g.min_iterations and (
                        self._converged(g) or count == g.max_iterations):
                    break
                count += 1
