"""Workload generators shared by the neighbour-search family of checks
(C01, C05, C07, C09, C17): particle clouds, smoothing lengths, histories.
Pure functions of a numpy Generator."""
import numpy as np

DISTS = ['uniform', 'clustered', 'lattice', 'lattice_faces', 'collinear',
         'coplanar', 'coincident', 'single', 'empty', 'sparse_corner',
         'two_blobs', 'axis_flat']
HMODES = ['const', 'smooth', 'loguniform', 'two_scale']


def positions(rng, dist, n, dim, L=1.0):
    """-> (n, 3) array; unused coordinates are zero (offset added later)."""
    p = np.zeros((n, 3))
    if n == 0:
        return p
    if dist == 'uniform':
        p[:, :dim] = rng.uniform(0, L, size=(n, dim))
    elif dist == 'clustered':
        nb = int(rng.integers(1, 5))
        cen = rng.uniform(0, L, size=(nb, dim))
        sig = L * 10 ** rng.uniform(-2.5, -0.7, size=nb)
        k = rng.integers(0, nb, size=n)
        p[:, :dim] = cen[k] + rng.normal(size=(n, dim)) * sig[k][:, None]
    elif dist in ('lattice', 'lattice_faces'):
        m = max(1, int(round(n ** (1.0 / dim))))
        ax = [np.arange(m) * (L / m)] * dim
        g = np.stack(np.meshgrid(*ax, indexing='ij'), -1).reshape(-1, dim)
        g = g[:n] if len(g) >= n else np.vstack(
            [g, g[rng.integers(0, len(g), size=n - len(g))]])
        p[:, :dim] = g
    elif dist == 'collinear':
        d = np.zeros(dim)
        d[:dim] = rng.normal(size=dim)
        d /= np.linalg.norm(d) or 1.0
        p[:, :dim] = rng.uniform(0, L, size=(n, 1)) * d[None, :] + \
            rng.uniform(0, L, size=dim)[None, :] * 0.1
    elif dist == 'coplanar':
        q = rng.uniform(0, L, size=(n, dim))
        if dim == 3:
            q[:, 2] = 0.3 * q[:, 0] + 0.2 * q[:, 1]
        p[:, :dim] = q
    elif dist == 'axis_flat':
        # all particles share one (or two) of the coordinates exactly: a
        # sheet or a rod aligned with the axes inside a dim-dimensional
        # search (zero extent along an axis that is in use)
        q = rng.uniform(0, L, size=(n, dim))
        if dim > 1:
            nflat = int(rng.integers(1, dim))
            for ax in rng.choice(dim, size=nflat, replace=False):
                q[:, ax] = float(rng.uniform(0, L))
        p[:, :dim] = q
    elif dist == 'coincident':
        c = rng.uniform(0, L, size=(max(1, n // 4), dim))
        p[:, :dim] = c[rng.integers(0, len(c), size=n)]
    elif dist == 'single':
        p[:, :dim] = rng.uniform(0, L, size=(1, dim))
    elif dist == 'sparse_corner':
        p[:, :dim] = rng.uniform(0, 0.12 * L, size=(n, dim)) + \
            rng.choice([0.0, 0.85 * L], size=dim)[None, :]
    elif dist == 'two_blobs':
        half = n // 2
        p[:half, :dim] = rng.normal(size=(half, dim)) * 0.03 * L + 0.15 * L
        p[half:, :dim] = rng.normal(size=(n - half, dim)) * 0.03 * L + 0.8 * L
    else:
        raise ValueError(dist)
    return p


def smoothing(rng, mode, pos, dim, h0):
    n = len(pos)
    if n == 0:
        return np.zeros(0)
    if mode == 'const':
        return np.full(n, h0)
    if mode == 'smooth':
        return h0 * (1.0 + 0.5 * np.sin(3.0 * pos[:, 0] + pos[:, 1]))
    if mode == 'loguniform':
        return h0 * 10 ** rng.uniform(-float(rng.choice([0.5, 1, 3])), 0,
                                      size=n)
    if mode == 'two_scale':
        return np.where(rng.random(n) < 0.2, h0, h0 * 0.1)
    raise ValueError(mode)


def array_set(rng, dim=None, nmax=200, narrays=None, allow_empty=True,
              allow_degenerate=True):
    """A random set of 1-3 particle 'arrays' as plain dicts
    {name, x, y, z, h}, plus the recipe that produced them."""
    dim = dim or int(rng.integers(1, 4))
    narrays = narrays or int(rng.choice([1, 2, 2, 3]))
    L = float(10 ** rng.uniform(-1, 1))
    offset = np.zeros(3)
    if rng.random() < 0.25:
        offset[:] = rng.choice([-1, 1], size=3) * 10 ** rng.uniform(1, 4) * L
    elif rng.random() < 0.5:
        offset[:] = rng.uniform(-1, 1, size=3) * L
    lattice_h = None
    arrays = []
    recipe = dict(dim=dim, L=L, offset=offset.tolist(), arrays=[])
    for a in range(narrays):
        dists = [d for d in DISTS
                 if (allow_empty or d != 'empty') and
                 (allow_degenerate or d not in ('single', 'coincident'))]
        # (axis-aligned flat sets are drawn three times as often: zero
        # extent along an axis in use is where index arithmetic degenerates)
        dist = str(rng.choice(dists + ['axis_flat', 'axis_flat']))
        n = int(rng.integers(2, nmax + 1))
        if dist == 'empty':
            n = 0
        elif dist == 'single':
            n = 1
        elif rng.random() < 0.3:
            n = int(rng.integers(2, 12))
        pos = positions(rng, dist, n, dim, L)
        # typical spacing -> h0 so that neighbour counts stay moderate
        spacing = L / max(2.0, n ** (1.0 / dim))
        h0 = spacing * float(rng.uniform(0.6, 2.0))
        if dist == 'lattice_faces' and n > 0:
            # cell size (radius_scale * hmax with radius_scale 2) equal to a
            # multiple of the lattice spacing: points exactly on cell faces
            m = max(1, int(round(n ** (1.0 / dim))))
            h0 = (L / m) * float(rng.choice([0.5, 1.0, 2.0]))
            hmode = 'const'
        else:
            hmode = str(rng.choice(HMODES))
        h = smoothing(rng, hmode, pos, dim, h0)
        pos = pos + offset[None, :]
        arrays.append(dict(name='a%d' % a, x=pos[:, 0].copy(),
                           y=pos[:, 1].copy(), z=pos[:, 2].copy(), h=h))
        recipe['arrays'].append(dict(dist=dist, n=n, hmode=hmode, h0=h0))
    return arrays, recipe


def history(rng, arrays, dim, nops=None):
    """Random list of update operations, as plain data."""
    nops = int(rng.integers(1, 5)) if nops is None else nops
    ops = []
    for _ in range(nops):
        a = int(rng.integers(0, len(arrays)))
        kind = str(rng.choice(['move', 'move', 'rescale_h', 'add', 'remove',
                               'remove_all', 'move_all']))
        ops.append(dict(kind=kind, array=a, seed=int(rng.integers(1 << 60))))
    return ops


def apply_op_data(op, arrays, dim, cell):
    """Apply an operation to the plain-dict arrays (the oracle's copy) and
    return what must be done to the real ParticleArray:
    ('set', idx, {prop: values}) | ('add', {prop: values}) | ('remove', idx)"""
    rng = np.random.default_rng(op['seed'])
    a = arrays[op['array']]
    n = len(a['x'])
    kind = op['kind']
    if kind in ('move', 'move_all'):
        if n == 0:
            return None
        k = n if kind == 'move_all' else max(1, int(rng.integers(1, n + 1)))
        idx = np.sort(rng.choice(n, size=k, replace=False))
        d = np.zeros((k, 3))
        d[:, :dim] = rng.uniform(-2, 2, size=(k, dim)) * cell
        for j, c in enumerate('xyz'):
            a[c][idx] += d[:, j]
        return ('set', idx, {c: a[c][idx].copy() for c in 'xyz'})
    if kind == 'rescale_h':
        if n == 0:
            return None
        k = max(1, int(rng.integers(1, n + 1)))
        idx = np.sort(rng.choice(n, size=k, replace=False))
        a['h'][idx] *= rng.uniform(0.3, 3.0, size=k)
        return ('set', idx, {'h': a['h'][idx].copy()})
    if kind == 'add':
        k = int(rng.integers(1, 20))
        if n:
            base = np.stack([a[c][rng.integers(0, n, size=k)] for c in 'xyz'],
                            1)
            hh = a['h'][rng.integers(0, n, size=k)].copy()
        else:
            others = [b for b in arrays if len(b['x'])]
            if not others:
                return None
            b = others[0]
            m = len(b['x'])
            base = np.stack([b[c][rng.integers(0, m, size=k)] for c in 'xyz'],
                            1)
            hh = b['h'][rng.integers(0, m, size=k)].copy()
        d = np.zeros((k, 3))
        d[:, :dim] = rng.uniform(-1.5, 1.5, size=(k, dim)) * cell
        new = base + d
        for j, c in enumerate('xyz'):
            a[c] = np.concatenate([a[c], new[:, j]])
        a['h'] = np.concatenate([a['h'], hh])
        return ('add', dict(x=new[:, 0], y=new[:, 1], z=new[:, 2], h=hh))
    if kind in ('remove', 'remove_all'):
        if n == 0:
            return None
        k = n if kind == 'remove_all' else int(rng.integers(1, n + 1))
        idx = np.sort(rng.choice(n, size=k, replace=False))
        # ParticleArray.remove_particles moves the last elements into the
        # holes; the oracle only needs the *multiset*, so it rebuilds its
        # copy from the real array afterwards (see callers).
        return ('remove', idx)
    raise ValueError(kind)


def apply_op_pa(op, pas, dim, cell):
    """Apply a history operation to real ParticleArrays through their public
    API.  The oracle afterwards reads the arrays themselves."""
    rng = np.random.default_rng(op['seed'])
    pa = pas[op['array']]
    n = pa.get_number_of_particles()
    kind = op['kind']
    if kind in ('move', 'move_all'):
        if n == 0:
            return 'noop'
        k = n if kind == 'move_all' else max(1, int(rng.integers(1, n + 1)))
        idx = np.sort(rng.choice(n, size=k, replace=False))
        for j, c in enumerate('xyz'[:dim]):
            arr = pa.get(c, only_real_particles=False)
            arr[idx] += rng.uniform(-2, 2, size=k) * cell
        return kind
    if kind == 'rescale_h':
        if n == 0:
            return 'noop'
        k = max(1, int(rng.integers(1, n + 1)))
        idx = np.sort(rng.choice(n, size=k, replace=False))
        h = pa.get('h', only_real_particles=False)
        h[idx] *= rng.uniform(0.3, 3.0, size=k)
        return kind
    if kind == 'add':
        k = int(rng.integers(1, 20))
        src = pa if n else next((p for p in pas
                                 if p.get_number_of_particles()), None)
        if src is None:
            return 'noop'
        m = src.get_number_of_particles()
        pick = rng.integers(0, m, size=k)
        new = {}
        for c in 'xyz':
            new[c] = src.get(c, only_real_particles=False)[pick].copy()
        for c in 'xyz'[:dim]:
            new[c] += rng.uniform(-1.5, 1.5, size=k) * cell
        new['h'] = src.get('h', only_real_particles=False)[pick].copy()
        pa.add_particles(**new)
        return kind
    if kind in ('remove', 'remove_all'):
        if n == 0:
            return 'noop'
        k = n if kind == 'remove_all' else int(rng.integers(1, n + 1))
        idx = np.sort(rng.choice(n, size=k, replace=False))
        pa.remove_particles(idx)
        return kind
    raise ValueError(kind)
