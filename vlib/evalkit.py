"""Helpers to build and run real compiled evaluators / integrators from
equations (used by C02 C03 C04 C09 C14)."""
import contextlib
import io

import numpy as np


def make_array(name, pos, h, props=None, strides=None, types=None,
               constants=None):
    """ParticleArray with x,y,z,h and the given properties.
    props: dict name -> array (n*stride values) or scalar."""
    from pysph.base.utils import get_particle_array
    n = len(h)
    pa = get_particle_array(name=name, x=pos[:, 0].copy(), y=pos[:, 1].copy(),
                            z=pos[:, 2].copy(), h=np.asarray(h, float).copy(),
                            constants=constants)
    for p, v in (props or {}).items():
        st = (strides or {}).get(p, 1)
        tp = (types or {}).get(p, 'double')
        data = np.asarray(v)
        if data.ndim == 0:
            data = np.full(n * st, v)
        if p in pa.properties and st == 1 and tp == 'double':
            pa.get(p, only_real_particles=False)[:] = data
        else:
            if p in pa.properties:
                pa.remove_property(p)
            pa.add_property(p, type=tp, stride=st,
                            data=data if n else None)
    return pa


class Evaluator(object):
    """AccelerationEval + SPHCompiler + an NNPS, like SPHEvaluator but with
    the pieces exposed."""

    def __init__(self, arrays, equations, kernel, dim, nnps_cls=None,
                 nnps_kw=None, domain=None, integrator=None, quiet=True):
        from pysph.sph.acceleration_eval import AccelerationEval
        from pysph.sph.sph_compiler import SPHCompiler
        from pysph.base import nnps as N
        self.arrays = arrays
        self.kernel = kernel
        self.dim = dim
        buf = io.StringIO()
        ctx = contextlib.redirect_stdout(buf) if quiet else \
            contextlib.nullcontext()
        try:
            with ctx:
                self.ae = AccelerationEval(arrays, equations, kernel)
                self.compiler = SPHCompiler(self.ae, integrator)
                self.compiler.compile()
        except BaseException as e:
            try:
                e.log = buf.getvalue()[-6000:]
            except Exception:
                pass
            raise
        self.integrator = integrator
        self.log = buf.getvalue()
        self.set_nnps(nnps_cls or N.LinkedListNNPS, nnps_kw, domain)

    def set_nnps(self, nnps_cls, nnps_kw=None, domain=None):
        self.nnps = nnps_cls(dim=self.dim, particles=self.arrays,
                             radius_scale=self.kernel.radius_scale,
                             domain=domain, **(nnps_kw or {}))
        self.ae.set_nnps(self.nnps)
        if self.integrator is not None:
            self.integrator.set_nnps(self.nnps)

    def compute(self, t=0.0, dt=0.1, update=True):
        if update:
            self.nnps.update_domain()
            self.nnps.update()
        self.ae.compute(t, dt)


def kernels():
    from pysph.base import kernels as K
    return ['CubicSpline', 'WendlandQuintic', 'Gaussian', 'QuinticSpline',
            'SuperGaussian', 'WendlandQuinticC4', 'WendlandQuinticC6',
            'WendlandQuinticC2_1D', 'WendlandQuinticC4_1D',
            'WendlandQuinticC6_1D']


def kernel_for(name, dim):
    from pysph.base import kernels as K
    try:
        return getattr(K, name)(dim=dim)
    except ValueError:
        return None
