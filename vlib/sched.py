"""A controlled scheduler and an instrumented `threading` module.

Logical threads run on real OS threads, but exactly one runs at a time; the
baton changes hands only at synchronisation operations (acquire, release,
wait, notify, explicit yield) and the next thread is chosen by a seeded
strategy among the *enabled* ones.  A state with unfinished threads and no
enabled thread is a deadlock / lost wake-up - a logical fact, not a timeout.
"""
import random
import threading as _real
import types
import _thread


class Abort(BaseException):
    pass


class World(object):
    def __init__(self, seed, strategy='random', max_steps=20000,
                 pct_depth=3):
        self.rng = random.Random(seed)
        self.strategy = strategy
        self.max_steps = max_steps
        self.threads = []
        self.cur = None
        self.steps = 0
        self.trace = []          # (thread, op, object)
        self.clock = 0
        self.aborted = False
        self.verdict = None      # None | ('deadlock', info) | ('budget', ..)
        self.done = _real.Event()
        self.error = None        # exception escaping a logical thread
        self._pct_points = sorted(self.rng.sample(range(1, 400), pct_depth)) \
            if strategy == 'pct' else []
        self._nlock = 0

    # ------------------------------------------------------------ threads
    def spawn(self, name, fn):
        t = types.SimpleNamespace(
            name=name, gate=_real.Semaphore(0), pred=None, why=None,
            finished=False, ident=1000 + len(self.threads),
            prio=self.rng.random(), exc=None)
        self.threads.append(t)

        def run():
            t.gate.acquire()
            try:
                if not self.aborted:
                    fn()
            except Abort:
                pass
            except BaseException as e:        # noqa
                t.exc = e
                if self.error is None:
                    self.error = (t.name, e)
            t.finished = True
            self._handoff(t, leaving=True)
        t.os = _real.Thread(target=run, daemon=True)
        t.os.start()
        return t

    def tick(self):
        self.clock += 1
        return self.clock

    def enabled(self):
        return [t for t in self.threads
                if not t.finished and (t.pred is None or t.pred())]

    def _choose(self, en):
        if self.strategy == 'pct':
            if self._pct_points and self.steps >= self._pct_points[0]:
                self._pct_points.pop(0)
                if self.cur is not None:
                    self.cur.prio = -self.rng.random()   # demote
            return max(en, key=lambda t: t.prio)
        if self.strategy == 'sticky':
            # prefer to keep running the current thread (long runs), switch
            # with probability 0.2
            if self.cur in en and self.rng.random() > 0.2:
                return self.cur
        return self.rng.choice(en)

    def _finish(self, verdict):
        if self.verdict is None:
            self.verdict = verdict
        self.aborted = True
        for t in self.threads:
            t.gate.release()
        self.done.set()

    def _handoff(self, me, leaving=False):
        self.steps += 1
        if self.aborted:
            if not leaving:
                raise Abort()
            return
        en = self.enabled()
        if not en:
            if all(t.finished for t in self.threads):
                self.verdict = self.verdict or ('finished', None)
                self.done.set()
                return
            self._finish(('deadlock', {t.name: t.why for t in self.threads
                                       if not t.finished}))
            if not leaving:
                raise Abort()
            return
        if self.steps > self.max_steps:
            self._finish(('budget', self.steps))
            if not leaving:
                raise Abort()
            return
        if getattr(me, 'polite', False) and len(en) > 1 and me in en:
            others = [t for t in en if t is not me]
            nxt = self._choose(others)
        else:
            nxt = self._choose(en)
        self.cur = nxt
        if nxt is me:
            return
        nxt.gate.release()
        if not leaving:
            me.gate.acquire()
            if self.aborted:
                raise Abort()

    def point(self, op, obj=None, pred=None, why=None):
        """A scheduling point of the running thread."""
        me = self.cur
        if self.aborted:
            # unwinding: never block again
            if pred is not None and not pred():
                raise Abort()
            return
        self.trace.append((me.name, op, getattr(obj, 'name', None)))
        me.pred, me.why = pred, why
        me.polite = (op == 'yield-to-others')
        try:
            self._handoff(me)
        finally:
            me.polite = False
        me.pred, me.why = None, None

    def run(self, timeout=120):
        first = self._choose(list(self.threads))
        self.cur = first
        first.gate.release()
        ok = self.done.wait(timeout)
        if not ok:
            self._finish(('watchdog', timeout))
        # let the OS threads unwind
        for t in self.threads:
            t.os.join(2.0)
        return self.verdict

    def signature(self):
        """Hash of the (thread, operation) sequence = the interleaving."""
        import hashlib
        h = hashlib.sha1()
        for tr in self.trace:
            h.update(('%s/%s/%s;' % tr).encode())
        return h.hexdigest()[:16]


class Primitives(object):
    """Factory of lock / condition objects bound to one World, and the
    substitute `threading` module exposing them."""

    def __init__(self, world=None):
        # `W` is a proxy: with world=None the primitives follow
        # Primitives.current (set by use()), so that one imported copy of the
        # module under test serves many worlds.
        outer = self

        class _Proxy(object):
            def __getattr__(self, k):
                return getattr(outer.world, k)

            def __setattr__(self, k, v):
                setattr(outer.world, k, v)
        self.world = world
        self.import_time_locks = []
        W = _Proxy()

        class ILock(object):
            reentrant = False

            def __init__(self):
                if outer.world is None:
                    # created while the module under test is being imported
                    self.name = 'G%d' % len(outer.import_time_locks)
                    outer.import_time_locks.append(self)
                else:
                    W._nlock += 1
                    self.name = 'L%d' % W._nlock
                self.owner = None
                self.count = 0

            @property
            def __class__(self):
                return _thread.LockType

            def acquire(self, blocking=True, timeout=-1):
                me = W.cur
                if self.reentrant and self.owner is me:
                    self.count += 1
                    return True
                if not blocking:
                    W.point('try-acquire', self)
                    if self.owner is not None:
                        return False
                    self.owner, self.count = W.cur, 1
                    return True
                W.point('acquire', self, pred=lambda: self.owner is None,
                        why='acquire %s held by %s' % (
                            self.name, getattr(self.owner, 'name', None)))
                assert self.owner is None, 'scheduler let two owners in'
                self.owner, self.count = W.cur, 1
                return True

            def release(self):
                if outer.world.aborted:
                    return
                if self.reentrant:
                    if self.owner is not W.cur:
                        raise RuntimeError('cannot release un-acquired lock')
                    self.count -= 1
                    if self.count > 0:
                        return
                elif self.owner is None:
                    raise RuntimeError('release unlocked lock')
                self.owner, self.count = None, 0
                W.point('release', self)

            def locked(self):
                return self.owner is not None

            def __enter__(self):
                self.acquire()
                return self

            def __exit__(self, *a):
                self.release()

        class IRLock(ILock):
            reentrant = True

            @property
            def __class__(self):
                return IRLock

        class ICondition(object):
            def __init__(self, lock=None):
                self.lock = lock if lock is not None else IRLock()
                self.name = 'C(%s)' % self.lock.name
                self.waiters = []

            def acquire(self, *a, **k):
                return self.lock.acquire(*a, **k)

            def release(self):
                return self.lock.release()

            def __enter__(self):
                self.lock.acquire()
                return self

            def __exit__(self, *a):
                self.lock.release()

            def wait(self, timeout=None):
                me = W.cur
                if outer.world.aborted:
                    raise Abort()
                if self.lock.owner is not me:
                    raise RuntimeError('cannot wait on un-acquired lock')
                saved = self.lock.count
                tok = [False]
                self.waiters.append(tok)
                self.lock.owner, self.lock.count = None, 0
                W.point('wait', self,
                        pred=lambda: tok[0] and self.lock.owner is None,
                        why='wait on %s (%s)' % (
                            self.name, 'notified, lock busy' if tok[0]
                            else 'never notified'))
                self.lock.owner, self.lock.count = W.cur, saved
                return True

            def notify(self, n=1):
                if outer.world.aborted:
                    return
                if self.lock.owner is not W.cur:
                    raise RuntimeError('cannot notify on un-acquired lock')
                for tok in self.waiters[:n]:
                    tok[0] = True
                del self.waiters[:n]
                W.point('notify', self)

            def notify_all(self):
                self.notify(len(self.waiters))

            notifyAll = notify_all

        self.Lock, self.RLock, self.Condition = ILock, IRLock, ICondition

    def use(self, world):
        """Bind the primitives to a new world; locks created at import time
        of the module under test start free."""
        self.world = world
        for l in self.import_time_locks:
            l.owner, l.count = None, 0

    def make_module(self):
        ILock, IRLock, ICondition = self.Lock, self.RLock, self.Condition
        outer = self

        class _Cur(object):
            @property
            def ident(self):
                return outer.world.cur.ident

            @property
            def name(self):
                return outer.world.cur.name
        m = types.ModuleType('threading')
        m.Lock, m.RLock, m.Condition = ILock, IRLock, ICondition
        m.current_thread = lambda: _Cur()
        m.currentThread = m.current_thread
        m.get_ident = lambda: outer.world.cur.ident
        m.Thread = _real.Thread
        m.Event = _real.Event
        self.module = m
        return m


def selftest(seeds=200):
    """The instrumented primitives against their contract: mutual exclusion,
    re-entrancy, wait/notify, notify without waiter is lost, deadlock of an
    ABBA pair is found.  Returns a dict of counters; raises on failure."""
    out = dict(mutex=0, rlock=0, cond=0, lost_notify=0, abba_deadlocks=0,
               abba_ok=0)
    for seed in range(seeds):
        W = World(seed)
        P = Primitives(W)
        L = P.Lock()
        inside = [0]
        maxin = [0]
        total = [0]

        def worker():
            for _ in range(3):
                with L:
                    inside[0] += 1
                    maxin[0] = max(maxin[0], inside[0])
                    W.point('yield')
                    total[0] += 1
                    inside[0] -= 1
        for k in range(3):
            W.spawn('w%d' % k, worker)
        v = W.run()
        assert v[0] == 'finished' and maxin[0] == 1 and total[0] == 9, \
            ('mutex', seed, v, maxin, total)
        out['mutex'] += 1

        W = World(seed)
        P = Primitives(W)
        R = P.RLock()

        def rl():
            with R:
                with R:
                    W.point('yield')
                    assert R.owner is W.cur and R.count == 2
        W.spawn('a', rl)
        W.spawn('b', rl)
        assert W.run()[0] == 'finished' and W.error is None, ('rlock', seed,
                                                              W.error)
        out['rlock'] += 1

        # condition with predicate: never loses
        W = World(seed)
        P = Primitives(W)
        C = P.Condition()
        flag = [False]
        got = [False]

        def waiter():
            with C:
                while not flag[0]:
                    C.wait()
                got[0] = True

        def notifier():
            with C:
                flag[0] = True
                C.notify()
        W.spawn('waiter', waiter)
        W.spawn('notifier', notifier)
        v = W.run()
        assert v[0] == 'finished' and got[0], ('cond', seed, v)
        out['cond'] += 1

        # bare wait without predicate: loses the wake-up in some schedules
        W = World(seed)
        P = Primitives(W)
        C = P.Condition()

        def bare_wait():
            with C:
                C.wait()

        def bare_notify():
            with C:
                C.notify()
        W.spawn('waiter', bare_wait)
        W.spawn('notifier', bare_notify)
        v = W.run()
        if v[0] == 'deadlock':
            out['lost_notify'] += 1

        # ABBA
        W = World(seed)
        P = Primitives(W)
        A, B = P.Lock(), P.Lock()

        def ab():
            with A:
                with B:
                    pass

        def ba():
            with B:
                with A:
                    pass
        W.spawn('ab', ab)
        W.spawn('ba', ba)
        v = W.run()
        out['abba_deadlocks' if v[0] == 'deadlock' else 'abba_ok'] += 1
    assert out['lost_notify'] > 0 and out['abba_deadlocks'] > 0 and \
        out['abba_ok'] > 0, out
    return out
