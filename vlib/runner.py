"""Run work items of a check in worker sub-processes that import the flavour's
own build of pysph.  One persistent worker per slot and flavour; a crash or a
watchdog costs one item, never the run."""
import json
import os
import queue
import signal
import subprocess
import sys
import threading
import time

sys.path.insert(0, os.path.join(os.path.dirname(os.path.dirname(
    os.path.abspath(__file__))), 'tools'))
import vbuild  # noqa: E402

PY = '/venv/bin/python'
NPROC = int(os.environ.get('VERIF_NPROC', '16'))


class Flavours(object):
    def __init__(self):
        self.info = {}

    def get(self, fl):
        if fl not in self.info:
            self.info[fl] = vbuild.build(fl)
        return self.info[fl]


FLAV = Flavours()


def san_options(flavour, logbase):
    if flavour == 'asan':
        return {
            'ASAN_OPTIONS': ('detect_leaks=0:halt_on_error=0:'
                             'allocator_may_return_null=1:'
                             'detect_stack_use_after_return=0:'
                             'handle_segv=1:hard_rss_limit_mb=8000:log_path=%s' % logbase),
            'UBSAN_OPTIONS': ('print_stacktrace=1:halt_on_error=0:'
                              'log_path=%s' % logbase),
        }
    if flavour == 'tsan':
        return {
            'TSAN_OPTIONS': ('halt_on_error=0:report_signal_unsafe=0:'
                             'history_size=4:second_deadlock_stack=1:'
                             'hard_rss_limit_mb=10000:log_path=%s' % logbase),
        }
    return {}


class _Worker(object):
    def __init__(self, modname, flavour, slot, logdir, extra_env=None):
        self.flavour = flavour
        info = FLAV.get(flavour)
        self.logbase = os.path.join(logdir, '%s.%s.s%d' % (
            modname.split('.')[-1], flavour, slot))
        extra = san_options(flavour, self.logbase + '.san')
        extra['VERIF_SANLOG'] = self.logbase + '.san'
        # many single-purpose workers share the cores: never let libgomp
        # busy-wait (16 workers x spinning barriers turned a 15 s chunk into
        # 20 minutes)
        extra['OMP_NUM_THREADS'] = os.environ.get('VERIF_OMP', '1')
        extra['OMP_WAIT_POLICY'] = 'passive'
        extra['GOMP_SPINCOUNT'] = '0'
        if extra_env:
            extra.update(extra_env)
        env = vbuild.full_env(info, extra)
        self.errf = open(self.logbase + '.stderr', 'ab')
        def limit():
            if flavour == 'plain':
                import resource
                lim = 12 << 30
                resource.setrlimit(resource.RLIMIT_AS, (lim, lim))
        self.p = subprocess.Popen(
            [PY, '-m', 'vlib.worker', modname], stdin=subprocess.PIPE,
            preexec_fn=limit,
            stdout=subprocess.PIPE, stderr=self.errf, env=env,
            cwd=os.path.dirname(os.path.dirname(os.path.abspath(__file__))),
            start_new_session=True)
        self.q = queue.Queue()
        self.t = threading.Thread(target=self._reader, daemon=True)
        self.t.start()
        self.sanpath = '%s.san.%d' % (self.logbase, self.p.pid)
        self.sanpos = 0

    def san_delta(self):
        """What the sanitizer runtime of this worker wrote since last asked
        (read by the driver, so it survives a dying worker)."""
        try:
            with open(self.sanpath, 'rb') as fp:
                fp.seek(self.sanpos)
                data = fp.read()
                self.sanpos += len(data)
            return data.decode('utf-8', 'replace')
        except OSError:
            return ''

    def _reader(self):
        for line in self.p.stdout:
            if line.startswith(b'@@RESULT '):
                self.q.put(line[9:])
        self.q.put(None)

    def run(self, item, timeout):
        r = self._run(item, timeout)
        d = self.san_delta()
        if d:
            r['san'] = d[-60000:]
        return r

    def _run(self, item, timeout):
        try:
            self.p.stdin.write((json.dumps(item) + '\n').encode())
            self.p.stdin.flush()
        except (BrokenPipeError, OSError):
            return dict(status='crash', detail='worker pipe closed')
        try:
            r = self.q.get(timeout=timeout)
        except queue.Empty:
            self.kill()
            return dict(status='timeout', detail='watchdog %ss' % timeout,
                        mark=self.last_mark())
        if r is None:
            self.p.wait()
            st = 'tainted' if self.p.returncode == 77 else 'crash'
            return dict(status=st, detail='worker exited rc=%s; %s' % (
                self.p.returncode, self.stderr_tail()),
                mark=self.last_mark())
        return json.loads(r)

    def last_mark(self):
        tail = self.stderr_tail(20000)
        k = tail.rfind('@@MARK ')
        if k < 0:
            return None
        line = tail[k + 7:].split('\n', 1)[0]
        try:
            return json.loads(line)
        except Exception:
            return None

    def stderr_tail(self, n=2500):
        try:
            self.errf.flush()
            with open(self.logbase + '.stderr', 'rb') as fp:
                fp.seek(0, 2)
                sz = fp.tell()
                fp.seek(max(0, sz - n))
                return fp.read().decode('utf-8', 'replace')
        except Exception as e:
            return 'no stderr (%r)' % (e,)

    def alive(self):
        return self.p.poll() is None

    def kill(self):
        try:
            os.killpg(self.p.pid, signal.SIGKILL)
        except Exception:
            pass
        try:
            self.p.wait(timeout=10)
        except Exception:
            pass

    def close(self):
        try:
            self.p.stdin.close()
            self.p.wait(timeout=20)
        except Exception:
            self.kill()
        try:
            self.errf.close()
        except Exception:
            pass


def run_items(modname, items, nproc=None, timeout=600, logdir=None,
              extra_env=None, progress=True):
    """items: list of JSON-able dicts, each with a 'flavour' key (default
    plain).  Returns the list of results in item order; each result is the
    dict returned by <module>.work(item) plus 'status' ('ok', 'crash',
    'timeout', 'error')."""
    nproc = nproc or NPROC
    flavours = sorted(set(it.get('flavour', 'plain') for it in items))
    for fl in flavours:
        FLAV.get(fl)
    logdir = logdir or os.path.join(vbuild.WORK, 'logs')
    os.makedirs(logdir, exist_ok=True)
    todo = queue.Queue()
    for i, it in enumerate(items):
        todo.put((i, it))
    results = [None] * len(items)
    done = [0]
    lock = threading.Lock()
    t0 = time.time()

    def slot(k):
        workers = {}
        while True:
            try:
                i, it = todo.get_nowait()
            except queue.Empty:
                break
            fl = it.get('flavour', 'plain')
            # items may ask not to share a process with items of another
            # kind (a class that corrupts the heap must not poison the next)
            wk = (fl, it.get('worker_key'))
            w = workers.get(fl)
            if w is None or not w.alive() or w.key != wk:
                if w is not None:
                    w.close()
                # an item with its own worker_key may also bring its own
                # environment (e.g. a PYTHONHASHSEED of its own)
                env_ = dict(extra_env or {})
                env_.update(it.get('env') or {})
                w = workers[fl] = _Worker(modname, fl, k, logdir, env_)
                w.key = wk
            r = w.run(it, it.get('timeout', timeout))
            r.setdefault('status', 'ok')
            results[i] = r
            with lock:
                done[0] += 1
                if progress and (done[0] % max(1, len(items) // 10) == 0):
                    print('  [%s] %d/%d items, %.0fs' % (
                        modname.split('.')[-1], done[0], len(items),
                        time.time() - t0), file=sys.stderr)
                    sys.stderr.flush()
        for w in workers.values():
            w.close()

    threads = [threading.Thread(target=slot, args=(k,))
               for k in range(min(nproc, max(1, len(items))))]
    for t in threads:
        t.start()
    for t in threads:
        t.join()
    return results


def run_one(modname, item, flavour='plain', timeout=600, extra_env=None):
    item = dict(item)
    item['flavour'] = flavour
    return run_items(modname, [item], nproc=1, timeout=timeout,
                     extra_env=extra_env, progress=False)[0]


_SELFCHECK = {}


def sanitizer_selfcheck(flavour):
    """Positive control: the flavour's runtime, loaded the way the workloads
    load it, must report a known overflow / race.  Returns (ok, detail)."""
    if flavour == 'plain':
        return True, 'plain flavour: no sanitizer'
    if flavour in _SELFCHECK:
        return _SELFCHECK[flavour]
    info = FLAV.get(flavour)
    fdir = os.path.dirname(info['tree'])
    so = os.path.join(fdir, 'san_control.so')
    src = os.path.join(os.path.dirname(os.path.abspath(vbuild.__file__)),
                       'san_control.c')
    flags = vbuild.FLAGS[flavour].split()
    r = subprocess.run(['gcc', '-shared', '-fPIC', '-o', so, src, '-lpthread']
                       + flags, stdout=subprocess.PIPE,
                       stderr=subprocess.STDOUT, text=True)
    if r.returncode != 0:
        _SELFCHECK[flavour] = (False, 'control build failed: ' + r.stdout[-500:])
        return _SELFCHECK[flavour]
    logbase = os.path.join(fdir, 'selfcheck.san')
    for f in os.listdir(fdir):
        if f.startswith('selfcheck.san'):
            os.remove(os.path.join(fdir, f))
    env = vbuild.full_env(info, san_options(flavour, logbase))
    code = ("import ctypes, pysph.base.nnps_base; l = ctypes.CDLL(%r); "
            % so)
    if flavour == 'asan':
        code += "l.control_overflow(4); l.control_ub(5)"
    else:
        code += "l.control_race()"
    r = subprocess.run([PY, '-c', code], env=env, stdout=subprocess.PIPE,
                       stderr=subprocess.STDOUT, text=True, timeout=300)
    text = ''
    for f in os.listdir(fdir):
        if f.startswith('selfcheck.san'):
            with open(os.path.join(fdir, f), errors='replace') as fp:
                text += fp.read()
    from . import sanparse
    reps = sanparse.parse(text + '\n' + r.stdout)
    kinds = sorted(set(x['tool'] for x in reps))
    need = {'asan': ['asan', 'ubsan'], 'tsan': ['tsan']}[flavour]
    ok = all(k in kinds for k in need)
    _SELFCHECK[flavour] = (ok, 'control reports seen: %s (need %s)' % (
        kinds, need))
    return _SELFCHECK[flavour]
