"""Parse ASan / UBSan / TSan text into de-duplicated report blocks."""
import re

_FRAME = re.compile(r'^\s*#(\d+)\s+0x[0-9a-f]+\s+(?:in\s+)?(\S+)\s*(.*)$')
_REPO_HINT = re.compile(r'(pysph/|/m_[0-9a-f]{32}|cyarray/|carray\.)')


def _strip_lines(s):
    return re.sub(r':\d+(:\d+)?', '', s)


def _frames(lines):
    out = []
    for ln in lines:
        m = _FRAME.match(ln)
        if m:
            out.append((m.group(2), m.group(3)))
    return out


def _top_repo_frame(frames):
    for fn, where in frames:
        if _REPO_HINT.search(where) or _REPO_HINT.search(fn):
            return fn, _strip_lines(where)
    return None


def parse(text):
    """Return list of dicts(kind, tool, key, repo, head, text)."""
    reports = []
    if not text:
        return reports
    lines = text.splitlines()
    i = 0
    n = len(lines)
    while i < n:
        ln = lines[i]
        m = re.search(r'ERROR: AddressSanitizer: (\S+)', ln)
        if m:
            j = i + 1
            while j < n and 'SUMMARY: AddressSanitizer' not in lines[j] \
                    and not re.search(r'ERROR: AddressSanitizer', lines[j]):
                j += 1
            block = lines[i:j + 1]
            fr = _frames(block)
            top = _top_repo_frame(fr)
            reports.append(dict(
                tool='asan', kind=m.group(1), repo=top is not None,
                key='asan:%s:%s' % (m.group(1), top[0] if top else
                                    (fr[0][0] if fr else '?')),
                head=ln.strip(), text='\n'.join(block[:40])))
            i = j + 1
            continue
        m = re.search(r'(\S+):(\d+):(\d+): runtime error: (.*)$', ln)
        if m:
            j = i + 1
            block = [ln]
            while j < n and _FRAME.match(lines[j]):
                block.append(lines[j])
                j += 1
            fr = _frames(block)
            top = _top_repo_frame(fr)
            fname = m.group(1)
            repo = bool(top) or bool(_REPO_HINT.search(fname))
            what = re.sub(r'0x[0-9a-f]+', 'ADDR', m.group(4))
            what = re.sub(r'-?\d+(\.\d+)?(e[+-]?\d+)?', 'N', what)
            reports.append(dict(
                tool='ubsan', kind=what[:80], repo=repo,
                key='ubsan:%s:%s' % (what[:60], top[0] if top else
                                     fname.split('/')[-1]),
                head=ln.strip(), text='\n'.join(block[:30])))
            i = j
            continue
        m = re.search(r'WARNING: ThreadSanitizer: ([^(]+)', ln)
        if m:
            j = i + 1
            while j < n and 'SUMMARY: ThreadSanitizer' not in lines[j]:
                j += 1
            block = lines[i:j + 1]
            # split into the stacks of the two accesses
            stacks = []
            cur = None
            for b in block:
                if re.match(r'\s+(Write|Read|Previous|Atomic)', b) or \
                        re.match(r'\s+(Mutex|Location|Thread)', b):
                    cur = []
                    stacks.append((b.strip(), cur))
                elif cur is not None and _FRAME.match(b):
                    cur.append(b)
            tops = []
            for head, st in stacks[:2]:
                t = _top_repo_frame(_frames(st))
                tops.append(t[0] if t else '?')
            kind = m.group(1).strip()
            reports.append(dict(
                tool='tsan', kind=kind, repo=any(t != '?' for t in tops),
                key='tsan:%s:%s' % (kind, '|'.join(sorted(tops))),
                head=ln.strip(), text='\n'.join(block[:60])))
            i = j + 1
            continue
        i += 1
    return reports


def dedupe(reports):
    seen = {}
    for r in reports:
        seen.setdefault(r['key'], []).append(r)
    return seen
