"""Random equation classes inside the documented language subset (C02 b).

Every generated class is real Python source (registered with linecache so
that inspect.getsource - which the transpiler needs - works), using typed and
strided properties, constants, instance attributes, declared locals and
matrices, helper functions, t/dt and every documented pair symbol.  Update
statements are non-commutative (`x = x*c + expr`) so that a mis-wired pointer
or symbol cannot cancel."""
import linecache

import numpy as np

# property name -> (type, stride)
PROPS = {'a0': ('double', 1), 'a1': ('double', 1), 'b3': ('double', 3),
         'c2': ('double', 2), 'ki': ('int', 1), 'gf': ('float', 1),
         'uu': ('unsigned int', 1), 'li': ('long', 1)}
CONSTS = {'cst': 3, 'total': 1}
SCALAR_SYMS = ['HIJ', 'R2IJ', 'RIJ', 'WIJ', 'WI', 'WJ', 'RHOIJ', 'RHOIJ1',
               'EPS', 'WDP', 'GHI', 'GHJ', 'GHIJ', 'WDASHI', 'WDASHJ',
               'WDASHIJ']
VEC_SYMS = ['XIJ', 'DWIJ', 'DWI', 'DWJ', 'VIJ']
BASE_D = ['x', 'y', 'h', 'u', 'v', 'w', 'rho', 'm', 'p']

HELPER_SRC = 'from vlib.eqgen_helpers import vh_mix, vh_norm2\n'


class Gen(object):
    def __init__(self, rng, transcendental):
        self.rng = rng
        self.tr = transcendental
        self.args = set()
        self.uses_helper = set()

    def c(self):
        return repr(float(self.rng.choice([0.5, 0.25, 1.5, 2.0, -0.75, 0.125,
                                           3.0, 1.0 / 3.0, 0.7, -1.3])))

    def term(self, ctx):
        r = self.rng
        opts = ['const', 'dprop', 'attr', 'time']
        if ctx['loop']:
            opts += ['sprop', 'sym', 'sym', 'vec', 'vec', 'sconst']
        if ctx['locals']:
            opts += ['local']
        k = str(r.choice(opts))
        if k == 'const':
            return self.c()
        if k == 'dprop':
            p = str(r.choice(BASE_D + ['a0', 'a1', 'gf']))
            self.args.add('d_' + p)
            if p == 'gf':
                # a float property is always read into a double context:
                # C multiplies float*float in single precision, Python does
                # not, and the subset does not pin that down
                return '(1.0*d_gf[d_idx])'
            return 'd_%s[d_idx]' % p
        if k == 'sprop':
            p = str(r.choice(BASE_D + ['a0', 'a1']))
            self.args.add('s_' + p)
            return 's_%s[s_idx]' % p
        if k == 'sconst':
            self.args.add('s_cst')
            return 's_cst[%d]' % int(r.integers(3))
        if k == 'attr':
            return 'self.' + str(r.choice(['fa', 'fb']))
        if k == 'time':
            self.args.add(str(r.choice(['t', 'dt'])))
            return sorted(a for a in self.args if a in ('t', 'dt'))[0]
        if k == 'sym':
            s = str(r.choice(SCALAR_SYMS))
            self.args.add(s)
            return s
        if k == 'vec':
            s = str(r.choice(VEC_SYMS))
            self.args.add(s)
            return '%s[%d]' % (s, int(r.integers(3)))
        return str(r.choice(ctx['locals']))

    def expr(self, ctx, depth=2):
        r = self.rng
        if depth == 0 or r.random() < 0.3:
            return self.term(ctx)
        k = str(r.choice(['+', '-', '*', 'div', 'sqrt', 'helper', 'intmix'] +
                         (['exp', 'pow'] if self.tr else [])))
        a = self.expr(ctx, depth - 1)
        b = self.expr(ctx, depth - 1)
        if k in '+-*':
            return '(%s %s %s)' % (a, k, b)
        if k == 'div':
            return '(%s/(1.0 + %s*%s))' % (a, b, b)
        if k == 'sqrt':
            return 'sqrt(1.0 + %s*%s)' % (a, a)
        if k == 'helper':
            self.uses_helper.add('vh_mix')
            return 'vh_mix(%s, %s)' % (a, b)
        if k == 'intmix':
            self.args.add('d_ki')
            return '(%s + 0.5*d_ki[d_idx])' % a
        if k == 'exp':
            return 'exp(-(%s)*(%s))' % (a, a)
        return 'pow(1.0 + (%s)*(%s), 0.3)' % (a, a)

    def stmt(self, ctx):
        r = self.rng
        kinds = ['upd', 'upd', 'upd3', 'upd2', 'int', 'flt', 'uint', 'long',
                 'local', 'matrix']
        if ctx['loop']:
            kinds += ['norm2']
        k = str(r.choice(kinds))
        lines = []
        if k == 'upd':
            p = str(r.choice(['a0', 'a1', 'p', 'rho']))
            self.args.add('d_' + p)
            lines.append('d_%s[d_idx] = d_%s[d_idx]*%s + %s' % (
                p, p, self.c(), self.expr(ctx)))
        elif k == 'upd3':
            self.args.add('d_b3')
            j = int(r.integers(3))
            lines.append('d_b3[3*d_idx + %d] = d_b3[d_idx*3 + %d]*%s + %s' % (
                j, (j + 1) % 3, self.c(), self.expr(ctx)))
        elif k == 'upd2':
            self.args.add('d_c2')
            ctx['decl'].add('jj')
            lines.append('for jj in range(2):')
            lines.append('    d_c2[2*d_idx + jj] = d_c2[2*d_idx + jj]*%s + '
                         '%s + jj' % (self.c(), self.expr(ctx)))
        elif k == 'int':
            self.args.add('d_ki')
            # (operands stay non-negative: C and Python disagree on the
            # sign of % for negative ones, which is outside the subset)
            lines.append('d_ki[d_idx] = (d_ki[d_idx]*3 + %d) %% 1009' % int(
                r.integers(1, 5)))
        elif k == 'long':
            self.args.add('d_li')
            lines.append('d_li[d_idx] = (d_li[d_idx]*2 + %d) %% 5003' % int(
                r.integers(1, 5)))
        elif k == 'uint':
            self.args.add('d_uu')
            lines.append('d_uu[d_idx] = (d_uu[d_idx]*5 + %d) %% 1013' % int(
                r.integers(1, 9)))
        elif k == 'flt':
            self.args.add('d_gf')
            lines.append('d_gf[d_idx] = d_gf[d_idx]*0.5 + %s' % self.expr(
                ctx, 1))
        elif k == 'local':
            name = 'tmp%d' % len(ctx['locals'])
            lines.append('%s = %s' % (name, self.expr(ctx)))
            ctx['locals'].append(name)
        elif k == 'matrix':
            name = 'mat%d' % len(ctx['mats'])
            ctx['mats'].append(name)
            lines.append('%s[0] = %s' % (name, self.expr(ctx, 1)))
            lines.append('%s[2] = %s[0]*%s' % (name, name, self.c()))
            ctx['locals'].append('%s[2]' % name)
        elif k == 'norm2':
            s = str(r.choice(VEC_SYMS))
            self.args.add(s)
            self.args.add('d_a1')
            self.uses_helper.add('vh_norm2')
            lines.append('d_a1[d_idx] = d_a1[d_idx]*0.5 + vh_norm2(%s, 3)'
                         % s)
        return lines

    def method(self, name):
        r = self.rng
        self.args = set()
        ctx = dict(loop=(name == 'loop'), locals=[], mats=[], decl=set())
        body = []
        for _ in range(int(r.integers(1, 4))):
            body += self.stmt(ctx)
        head = []
        if ctx['decl']:
            head.append('%s = declare(\'int\')' % ', '.join(sorted(
                ctx['decl'])) if len(ctx['decl']) == 1 else
                '%s = declare(\'int\', %d)' % (', '.join(sorted(ctx['decl'])),
                                               len(ctx['decl'])))
        if len(ctx['mats']) == 1:
            head.append("%s = declare('matrix(3)')" % ctx['mats'][0])
        elif len(ctx['mats']) > 1:
            # the documented multi-declaration form
            head.append("%s = declare('matrix(3)', %d)" % (
                ', '.join(ctx['mats']), len(ctx['mats'])))
        args = ['self', 'd_idx']
        if name in ('loop', 'initialize_pair', 'loop_all'):
            pass
        if name == 'loop':
            args.append('s_idx')
        args += sorted(self.args)
        return args, head + body

    def loop_all(self):
        args = ['self', 'd_idx', 'd_a0', 's_m', 's_h', 'NBRS', 'N_NBRS']
        body = ["i, sidx = declare('int', 2)",
                'acc = 0.0',
                'for i in range(N_NBRS):',
                '    sidx = NBRS[i]',
                '    acc = acc*0.5 + s_m[sidx]*(i + 1) - s_h[sidx]',
                'd_a0[d_idx] = d_a0[d_idx]*0.75 + acc']
        return args, body

    def reduce(self):
        return ['self', 'dst', 't', 'dt'], [
            'dst.total[0] = dst.total[0]*0.5 + serial_reduce_array('
            'dst.a0, \'sum\') + t',
            'self.fb = self.fb*0.5 + 0.125']


def make_class(rng, uid, transcendental=False):
    g = Gen(rng, transcendental)
    hooks = [h for h in ('initialize', 'loop', 'post_loop') if
             rng.random() < 0.7] or ['loop']
    extra = []
    if rng.random() < 0.25:
        extra.append('initialize_pair')
    if rng.random() < 0.25:
        extra.append('loop_all')
    if rng.random() < 0.3:
        extra.append('reduce')
    name = 'VGen%s' % uid
    src = ['class %s(Equation):' % name,
           '    def __init__(self, dest, sources, fa=0.5, fb=1.25):',
           '        self.fa = fa',
           '        self.fb = fb',
           '        super(%s, self).__init__(dest, sources)' % name, '']
    helpers = set()
    for h in hooks + extra:
        if h == 'loop_all':
            args, body = g.loop_all()
        elif h == 'reduce':
            args, body = g.reduce()
        elif h == 'initialize_pair':
            args, body = g.method('initialize')
        else:
            args, body = g.method(h)
        helpers |= g.uses_helper
        src.append('    def %s(%s):' % (h, ', '.join(args)))
        src += ['        ' + ln for ln in body]
        src.append('')
    if helpers:
        src.append('    def _get_helpers_(self):')
        src.append('        return [%s]' % ', '.join(sorted(helpers)))
        src.append('')
    text = ('from pysph.sph.equation import Equation\n'
            'from compyle.api import declare\n'
            'from math import sqrt, exp\n'
            'from pysph.base.reduce_array import serial_reduce_array\n' +
            HELPER_SRC + '\n\n' + '\n'.join(src) + '\n')
    fname = '<vgen-%s>' % uid
    linecache.cache[fname] = (len(text), None, text.splitlines(True), fname)
    ns = {'__name__': 'vgen_%s' % uid}
    exec(compile(text, fname, 'exec'), ns)
    cls = ns[name]
    return cls, text, bool(transcendental)
