"""Driver-side helper shared by the checks: shard case indices over workers,
merge what the monitors counted, attribute sanitizer reports, write the
evidence file and print the verdict."""
import os
import sys
import time

from . import common, runner, sanparse


class Merge(object):
    def __init__(self):
        self.evaluations = 0
        self.distinct = set()
        self.counters = {}
        self.violations = []
        self.samples = []
        self.status = {}
        self.san = []       # (item, text)
        self.problems = []  # crash / timeout / error details
        self.sets = {}
        self.selfcheck = {}

    def add(self, item, r):
        st = r.get('status', 'ok')
        self.status[st] = self.status.get(st, 0) + 1
        if st != 'ok':
            self.problems.append(dict(status=st, item=item,
                                      detail=r.get('detail', '')[-3000:],
                                      mark=r.get('mark')))
        self.evaluations += int(r.get('evaluations', 0))
        for k in r.get('distinct', []):
            self.distinct.add(k if isinstance(k, str) else repr(k))
        for k, v in r.get('counters', {}).items():
            self.counters[k] = self.counters.get(k, 0) + v
        for k, v in r.get('sets', {}).items():
            self.sets.setdefault(k, set()).update(
                x if isinstance(x, str) else repr(x) for x in v)
        for v in r.get('violations', []):
            v = dict(v)
            v['flavour'] = item.get('flavour', 'plain')
            self.violations.append(v)
        for s in r.get('samples', []):
            if len(self.samples) < 6:
                self.samples.append(s)
        if r.get('san'):
            self.san.append((item, r['san']))


def execute(modname, items, timeout=900, nproc=None, extra_env=None):
    m = Merge()
    if not items:
        return m
    m.selfcheck = {}
    for fl in sorted(set(it.get('flavour', 'plain') for it in items)):
        if fl != 'plain':
            m.selfcheck[fl] = runner.sanitizer_selfcheck(fl)
    res = runner.run_items(modname, items, nproc=nproc, timeout=timeout,
                           extra_env=extra_env)
    for it, r in zip(items, res):
        m.add(it, r or dict(status='crash', detail='no result'))
    return m


def execute_resilient(modname, items, timeout=900, nproc=None, extra_env=None,
                      max_rounds=12):
    """Like execute(), but an item whose worker crashed or hit the watchdog
    is re-run with the crashing configuration (the worker's last breadcrumb)
    added to item['skip'], so one crash costs one configuration, not the rest
    of the item.  Returns (merge, crashes) with crashes = list of
    dict(status, mark, item, detail)."""
    m = Merge()
    crashes = []
    m.selfcheck = {}
    for fl in sorted(set(it.get('flavour', 'plain') for it in items)):
        if fl != 'plain':
            m.selfcheck[fl] = runner.sanitizer_selfcheck(fl)
    todo = [dict(it) for it in items]
    for rnd in range(max_rounds):
        if not todo:
            break
        res = runner.run_items(modname, todo, nproc=nproc, timeout=timeout,
                               extra_env=extra_env, progress=(rnd == 0))
        again = []
        for it, r in zip(todo, res):
            r = r or dict(status='crash', detail='no result')
            if r.get('status') in ('crash', 'timeout', 'tainted') and \
                    r.get('mark') and rnd < max_rounds - 1:
                mk = r['mark']
                if r.get('san'):
                    m.san.append((dict(it, mark=mk), r['san']))
                if r['status'] != 'tainted' or not r.get('san'):
                    crashes.append(dict(status=r['status'], mark=mk, item=it,
                                        detail=r.get('detail', '')[-1500:]))
                it2 = dict(it)
                it2['skip'] = list(it.get('skip', [])) + [mk.get('id')]
                again.append(it2)
            else:
                m.add(it, r)
        todo = again
    return m, crashes


def san_violations(merge, verdict, classify=None, count_nonrepo=False):
    """Turn sanitizer report blocks into violations (key = sanitizer kind +
    top repository frame, line numbers stripped)."""
    nblocks = 0
    keys = {}
    nonrepo = {}
    for item, text in merge.san:
        for rep in sanparse.parse(text):
            nblocks += 1
            if not rep['repo'] and not count_nonrepo:
                nonrepo[rep['key']] = nonrepo.get(rep['key'], 0) + 1
                continue
            key = rep['key']
            if classify:
                key = classify(rep, item) or key
            if key not in keys:
                keys[key] = 0
                verdict.violation(key, rep['head'] + '\n' + rep['text'][:1500],
                                  dict(item=item))
            keys[key] += 1
    return dict(san_report_blocks=nblocks, san_distinct=dict(keys),
                san_nonrepo=nonrepo)


def finish(prop, tier, level, merge, verdict, timer, rule, assumptions,
           extra_cov=None, min_evaluations=1, min_distinct=2,
           tolerate_problems=0.02):
    """Common epilogue.  Returns the exit code."""
    for v in merge.violations:
        verdict.violation(v['key'], v['what'], v.get('case'))
    nprob = sum(n for s, n in merge.status.items() if s != 'ok')
    ntot = sum(merge.status.values()) or 1
    for p in merge.problems[:5]:
        common.log('  problem: %s item=%s\n    %s' % (
            p['status'], str(p['item'])[:200],
            p['detail'][-1500:].replace('\n', '\n    ')))
    # only watchdog timeouts (a loaded machine) are tolerated, and only a
    # few: a worker that crashed or raised is never folded into "held"
    nhard = sum(n for s, n in merge.status.items()
                if s not in ('ok', 'timeout'))
    if nhard or nprob > tolerate_problems * ntot:
        verdict.inconclusive_because(
            '%d of %d work items did not complete (%s)' % (
                nprob, ntot, merge.status))
    if merge.evaluations < min_evaluations or \
            len(merge.distinct) < min_distinct:
        verdict.inconclusive_because(
            'deciding monitor evaluated %d cases (%d distinct non-trivial); '
            'needs >= %d / %d' % (merge.evaluations, len(merge.distinct),
                                  min_evaluations, min_distinct))
    for fl, (ok, detail) in sorted(merge.selfcheck.items()):
        if not ok:
            verdict.inconclusive_because(
                'sanitizer positive control failed on %s: %s' % (fl, detail))
    cov = dict(evaluations=merge.evaluations,
               distinct_nontrivial=len(merge.distinct), rule=rule,
               samples=merge.samples[:6] or ['(no sample recorded)'],
               counters=merge.counters, item_status=merge.status,
               sanitizer_positive_control={
                   fl: dict(ok=ok, detail=d)
                   for fl, (ok, d) in merge.selfcheck.items()})
    for k, s in merge.sets.items():
        cov['distinct_' + k] = len(s)
        cov['some_' + k] = sorted(s)[:40]
    if extra_cov:
        cov.update(extra_cov)
    code = verdict.finish()
    common.write_evidence(prop, tier, level, cov, timer.s(),
                          violations=verdict.n_fresh(),
                          assumptions=assumptions,
                          extra=dict(known_findings_observed=sorted(
                              set(v['key'] for v in verdict.violations) &
                              set(common.known_keys(prop))),
                              exit_code=code))
    print('%s %s: %d evaluations, %d distinct non-trivial, %d fresh '
          'violation(s), exit %d, %.0fs' % (
              prop, tier, merge.evaluations, len(merge.distinct),
              verdict.n_fresh(), code, timer.s()))
    return code


def chunks(n, size):
    return [(a, min(n, a + size)) for a in range(0, n, size)]
