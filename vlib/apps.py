"""Small Application subclasses used by C05: a free-surface problem with one
array, a wall-bounded one with two fluids and a solid, and a periodic one.
Every particle carries a unique `uid` so that states can be matched by
identity after spatial re-ordering."""
import numpy as np


def _uid(pas):
    k = 0
    for pa in pas:
        n = pa.get_number_of_particles()
        pa.add_property('uid', data=np.arange(k, k + n, dtype=float))
        pa.add_output_arrays(['uid'])
        k += n


def _gids(app, pas):
    """With --valid-gids every array gets real global ids (as a parallel
    run or a restart would have) instead of the serial placeholder."""
    if getattr(app.options, 'valid_gids', False):
        for pa in pas:
            n = pa.get_number_of_particles()
            # not in index order: gid order and local order differ at once
            g = (np.arange(n, dtype=np.uint32) * 7919) % max(n, 1)
            if len(set(g.tolist())) != n:
                g = np.arange(n, dtype=np.uint32)[::-1].copy()
            pa.gid[:] = g


class _GidOption(object):
    def add_user_options(self, group):
        group.add_argument('--valid-gids', action='store_true',
                           dest='valid_gids', default=False,
                           help='give every particle a valid gid')


def make_app(problem):
    from pysph.solver.application import Application
    from pysph.base.utils import get_particle_array
    from pysph.base.kernels import CubicSpline, QuinticSpline
    from pysph.sph.scheme import WCSPHScheme
    from pysph.sph.integrator import EPECIntegrator, PECIntegrator
    from pysph.base.nnps import DomainManager

    class Drop(_GidOption, Application):
        """Elliptical drop: one array, free surface."""

        def create_scheme(self):
            self.dx = 0.08
            self.hdx = 1.3
            return WCSPHScheme(['fluid'], [], dim=2, rho0=1.0, c0=1400.0,
                               h0=self.dx * self.hdx, hdx=self.hdx,
                               gamma=7.0, alpha=0.1, beta=0.0)

        def configure_scheme(self):
            dt = 0.25 * self.hdx * self.dx / (141 + 1400.0)
            self.scheme.configure_solver(
                kernel=CubicSpline(dim=2), integrator_cls=EPECIntegrator,
                dt=dt, tf=24.5 * dt, adaptive_timestep=False, n_damp=0)

        def create_particles(self):
            dx = self.dx
            x, y = np.mgrid[-1.05:1.05 + 1e-4:dx, -1.05:1.05 + 1e-4:dx]
            x, y = x.ravel(), y.ravel()
            keep = np.sqrt(x * x + y * y) - 1 <= 1e-10
            x, y = x[keep], y[keep]
            # break the lattice symmetry a little (deterministically)
            rs = np.random.RandomState(7)
            x = x + 0.07 * dx * rs.uniform(-1, 1, size=len(x))
            y = y + 0.07 * dx * rs.uniform(-1, 1, size=len(x))
            pa = get_particle_array(
                name='fluid', x=x, y=y, m=np.full_like(x, dx * dx),
                h=np.full_like(x, self.hdx * dx), rho=np.ones_like(x),
                u=-100 * x, v=100 * y)
            self.scheme.setup_properties([pa])
            _uid([pa])
            _gids(self, [pa])
            return [pa]

    class Tank(_GidOption, Application):
        """Two fluid blocks in a box: three arrays, walls, free surface."""

        def create_scheme(self):
            self.dx = 0.05
            self.hdx = 1.2
            return WCSPHScheme(['water', 'oil'], ['wall'], dim=2, rho0=1000.0,
                               c0=20.0, h0=self.dx * self.hdx, hdx=self.hdx,
                               gy=-9.81, gamma=7.0, alpha=0.2, beta=0.0)

        def configure_scheme(self):
            dt = 0.125 * self.hdx * self.dx / 20.0
            self.scheme.configure_solver(
                kernel=QuinticSpline(dim=2), integrator_cls=PECIntegrator,
                dt=dt, tf=20.5 * dt, adaptive_timestep=False, n_damp=0)

        def create_particles(self):
            dx = self.dx
            rs = np.random.RandomState(11)

            def block(x0, x1, y0, y1, jitter=0.05):
                x, y = np.mgrid[x0:x1 + 1e-9:dx, y0:y1 + 1e-9:dx]
                x, y = x.ravel(), y.ravel()
                x = x + jitter * dx * rs.uniform(-1, 1, size=len(x))
                y = y + jitter * dx * rs.uniform(-1, 1, size=len(x))
                return x, y
            wx, wy = block(0.05, 0.45, 0.05, 0.6)
            # the oil starts out of the water's kernel range (0.19 > 3h) and
            # moves into it during the run: the (water, oil) neighbour lists
            # are empty at first and fill up later
            ox, oy = block(0.64, 0.89, 0.05, 0.35)
            bx, by = np.mgrid[-0.1:1.1 + 1e-9:dx, -0.1:0.9 + 1e-9:dx]
            bx, by = bx.ravel(), by.ravel()
            inside = (bx > 0.0 + 1e-9) & (bx < 1.0 - 1e-9) & (by > 1e-9)
            bx, by = bx[~inside], by[~inside]
            pas = []
            for nm, x, y, rho in (('water', wx, wy, 1000.0),
                                  ('oil', ox, oy, 1000.0),
                                  ('wall', bx, by, 1000.0)):
                pas.append(get_particle_array(
                    name=nm, x=x, y=y, m=np.full_like(x, dx * dx * rho),
                    # (the wall is resolved with a larger smoothing length
                    # than the fluids: source h > destination h for the pairs
                    # fluid <- wall)
                    h=np.full_like(x, self.hdx * dx * (
                        1.3 if nm == 'wall' else 1.0)),
                    rho=np.full_like(x, rho),
                    u=np.full_like(x, -8.0 if nm == 'oil' else 0.0)))
            self.scheme.setup_properties(pas)
            _uid(pas)
            _gids(self, pas)
            return pas

    class Periodic(_GidOption, Application):
        """Decaying vortex in a doubly periodic box: one array, ghosts."""

        def create_domain(self):
            return DomainManager(xmin=0.0, xmax=1.0, ymin=0.0, ymax=1.0,
                                 periodic_in_x=True, periodic_in_y=True)

        def create_scheme(self):
            self.dx = 1.0 / 20
            self.hdx = 1.2
            return WCSPHScheme(['fluid'], [], dim=2, rho0=1.0, c0=10.0,
                               h0=self.dx * self.hdx, hdx=self.hdx,
                               gamma=7.0, alpha=0.1, beta=0.0, nu=0.01)

        def configure_scheme(self):
            dt = 0.125 * self.hdx * self.dx / 11.0
            self.scheme.configure_solver(
                kernel=QuinticSpline(dim=2), integrator_cls=PECIntegrator,
                dt=dt, tf=20.5 * dt, adaptive_timestep=False, n_damp=0)

        def create_particles(self):
            dx = self.dx
            x, y = np.mgrid[dx / 2:1:dx, dx / 2:1:dx]
            x, y = x.ravel(), y.ravel()
            rs = np.random.RandomState(13)
            x = x + 0.1 * dx * rs.uniform(-1, 1, size=len(x))
            y = y + 0.1 * dx * rs.uniform(-1, 1, size=len(x))
            u = -np.cos(2 * np.pi * x) * np.sin(2 * np.pi * y)
            v = np.sin(2 * np.pi * x) * np.cos(2 * np.pi * y)
            pa = get_particle_array(
                name='fluid', x=x, y=y, m=np.full_like(x, dx * dx),
                h=np.full_like(x, self.hdx * dx), rho=np.ones_like(x),
                u=u, v=v)
            self.scheme.setup_properties([pa])
            _uid([pa])
            _gids(self, [pa])
            return [pa]

    return dict(drop=Drop, tank=Tank, periodic=Periodic)[problem]
