"""Introspection of IntegratorStep / Integrator classes (C04, C20)."""
import inspect
import re

from vlib import refeval

STAGE_RE = re.compile(r'^(initialize|stage\d+)$')
PY_RE = re.compile(r'^py_(initialize|stage\d+)$')
INT_NAMES = {'tag': 'int', 'pid': 'int', 'gid': 'unsigned int',
             'body_id': 'int', 'ioid': 'int', 'disable_tag': 'int',
             'is_boundary': 'int', 'ki': 'int', 'stamp': 'int'}


def stage_methods(st):
    return sorted(m for m in dir(st) if STAGE_RE.match(m) and
                  callable(getattr(st, m)))


def py_hooks(st):
    return sorted(m for m in dir(st) if PY_RE.match(m) and
                  callable(getattr(st, m)))


class Probe(list):
    def __init__(self, name, log, value):
        self.name, self.log, self.value = name, log, value

    def __getitem__(self, i):
        self.log.setdefault(self.name, []).append(int(i))
        return self.value

    def __setitem__(self, i, v):
        self.log.setdefault(self.name, []).append(int(i))


def probe_stepper(st):
    """-> dict(props={name: stride}, written=set, indirect={name: maxidx},
    error=None|str) from one recorded call of every stage method plus the
    method sources."""
    P = 17
    log = {}
    strides = {}
    names = set()
    written = set()
    for h in stage_methods(st):
        m = getattr(st, h)
        f = refeval.rebind(m)
        args = inspect.getfullargspec(f).args[1:]
        vals = []
        for a in args:
            if a == 'd_idx':
                vals.append(P)
            elif a.startswith('d_'):
                names.add(a[2:])
                vals.append(Probe(a, log, 0 if a[2:] in INT_NAMES else 0.37))
            elif a in ('t', 'dt'):
                vals.append(0.1)
            else:
                return dict(error='%s.%s takes %r' % (
                    type(st).__name__, h, a))
        try:
            f(st, *vals)
        except (ZeroDivisionError, ValueError, OverflowError):
            pass
        except Exception as e:
            return dict(error='%s.%s: %r' % (type(st).__name__, h, e))
        try:
            src = inspect.getsource(m)
        except (OSError, TypeError):
            src = ''
        for mm in re.finditer(r'\bd_(\w+)\[([^\]]*)\]\s*([-+*/]?=)(?!=)',
                              src):
            written.add(mm.group(1))
        for mm in re.finditer(r'\bd_(\w+)\[([^\]]*)\]', src):
            arr, idx = mm.group(1), mm.group(2)
            for k in re.findall(r'(?:d_idx\s*\*\s*(\d+))|(?:(\d+)\s*\*'
                                r'\s*d_idx)', idx):
                stv = int(k[0] or k[1])
                strides[arr] = max(strides.get(arr, 1), stv)
    indirect = {}
    for name, idxs in log.items():
        nm = name[2:]
        if min(idxs) < P:
            indirect[nm] = max(idxs)
            continue
        mx = max(idxs)
        strides[nm] = max(strides.get(nm, 1), max(1, mx // P))
    props = {n: strides.get(n, 1) for n in names}
    return dict(props=props, written=written, indirect=indirect, error=None)


def timestep_calls(cls):
    """What one_timestep of an Integrator class calls, read off its source:
    (stages called, number of equation sets, uses update_domain,
    has update_nnps=False)."""
    src = inspect.getsource(cls.one_timestep)
    stages = set(re.findall(r'self\.(initialize|stage\d+)\(', src))
    idx = [0]
    for mm in re.finditer(r'self\.compute_accelerations\(([^)]*)\)', src):
        a = mm.group(1).split(',')[0].strip()
        a = a.split('=')[-1].strip() if a.startswith('index') else a
        if re.match(r'^\d+$', a):
            idx.append(int(a))
    return dict(stages=stages, nsets=max(idx) + 1,
                update_domain='self.update_domain(' in src,
                stale='update_nnps=False' in src)
