"""Shared pieces: seeds, evidence files, verdicts, known findings."""
import hashlib
import json
import os
import sys
import time

VERIF = os.path.dirname(os.path.dirname(os.path.abspath(__file__)))
EVIDENCE_DIR = os.path.join(VERIF, 'evidence')
REPLAY_DIR = os.path.join(VERIF, 'replay')
KNOWN_FILE = os.path.join(VERIF, 'known_findings.json')

EXIT_HELD, EXIT_VIOLATION, EXIT_INCONCLUSIVE = 0, 1, 2


def seed():
    try:
        return int(os.environ.get('VERIF_SEED', '0'))
    except ValueError:
        return 0


def case_seed(*parts):
    """Deterministic 63-bit seed from (VERIF_SEED, property, tier-free parts)."""
    h = hashlib.sha256(repr(parts).encode()).digest()
    return int.from_bytes(h[:8], 'little') >> 1


def digest(obj):
    return hashlib.sha1(json.dumps(obj, sort_keys=True, default=str)
                        .encode()).hexdigest()[:16]


def jsonable(o):
    """Best-effort conversion of numpy things to plain JSON."""
    try:
        import numpy as np
    except Exception:
        np = None
    if isinstance(o, dict):
        return {str(k): jsonable(v) for k, v in o.items()}
    if isinstance(o, (list, tuple, set, frozenset)):
        return [jsonable(v) for v in (sorted(o, key=repr)
                                      if isinstance(o, (set, frozenset))
                                      else o)]
    if np is not None:
        if isinstance(o, np.ndarray):
            return [jsonable(v) for v in o.tolist()]
        if isinstance(o, np.generic):
            return jsonable(o.item())
    if isinstance(o, float):
        if o != o:
            return 'nan'
        if o in (float('inf'), float('-inf')):
            return 'inf' if o > 0 else '-inf'
        return o
    if isinstance(o, (int, str, bool)) or o is None:
        return o
    return repr(o)


def load_known():
    if not os.path.exists(KNOWN_FILE):
        return []
    with open(KNOWN_FILE) as fp:
        return json.load(fp).get('findings', [])


def known_keys(prop):
    """mechanism keys of *unrepaired* findings for a property."""
    return {f['key']: f for f in load_known()
            if f.get('property') == prop and f.get('status') == 'known'}


def write_replay(prop, name, payload):
    os.makedirs(REPLAY_DIR, exist_ok=True)
    p = os.path.join(REPLAY_DIR, '%s_%s.json' % (prop, name))
    with open(p, 'w') as fp:
        json.dump(jsonable(payload), fp, indent=1, sort_keys=True)
    return p


def write_evidence(prop, tier, level, coverage, wall_s, violations,
                   assumptions=None, extra=None):
    os.makedirs(EVIDENCE_DIR, exist_ok=True)
    ev = dict(property_id=prop, tier=tier, seed=seed(), level=level,
              coverage=jsonable(coverage), wall_s=round(float(wall_s), 2),
              violations=int(violations),
              assumptions=list(assumptions or []))
    if extra:
        ev.update(jsonable(extra))
    p = os.path.join(EVIDENCE_DIR, '%s.json' % prop)
    tmp = p + '.tmp'
    with open(tmp, 'w') as fp:
        json.dump(ev, fp, indent=1, sort_keys=True)
    os.replace(tmp, p)
    return p


class Verdict(object):
    """Collects violations (each with a mechanism key) and decides the exit
    code against known_findings.json."""

    def __init__(self, prop):
        self.prop = prop
        self.violations = []   # dicts: key, what, case (replayable)
        self.inconclusive = []

    def violation(self, key, what, case=None):
        self.violations.append(dict(key=key, what=what, case=case))

    def inconclusive_because(self, why):
        self.inconclusive.append(why)

    def finish(self):
        """Print the verdict lines; return the exit code."""
        known = known_keys(self.prop)
        seen_known = {}
        fresh = {}
        for v in self.violations:
            if v['key'] in known:
                seen_known.setdefault(v['key'], []).append(v)
            else:
                fresh.setdefault(v['key'], []).append(v)
        for k, vs in sorted(seen_known.items()):
            print('KNOWN-FINDING: property=%s %s [%s; %d observation(s)]' % (
                self.prop, known[k]['what'], k, len(vs)))
        for k, f in sorted(known.items()):
            if k not in seen_known:
                # listed finding: always reported, even when this run's
                # workload did not happen to reach it
                print('KNOWN-FINDING: property=%s %s [%s; not re-observed in '
                      'this run]' % (self.prop, f['what'], k))
        code = EXIT_HELD
        for k, vs in sorted(fresh.items()):
            v = vs[0]
            path = write_replay(self.prop, digest([k, v['what']])[:10],
                                dict(property=self.prop, key=k,
                                     what=v['what'], case=v['case'],
                                     n_same_key=len(vs)))
            print('VIOLATION property=%s replay=%s' % (self.prop, path))
            print('  mechanism: %s' % k)
            print('  what: %s' % (str(v['what'])[:600]))
            code = EXIT_VIOLATION
        if code == EXIT_HELD and self.inconclusive:
            for w in self.inconclusive:
                print('INCONCLUSIVE property=%s %s' % (self.prop, w))
            code = EXIT_INCONCLUSIVE
        return code

    def n_fresh(self):
        known = known_keys(self.prop)
        return sum(1 for v in self.violations if v['key'] not in known)


class Timer(object):
    def __init__(self):
        self.t0 = time.time()

    def s(self):
        return time.time() - self.t0


def log(*a):
    print(*a, file=sys.stderr)
    sys.stderr.flush()
