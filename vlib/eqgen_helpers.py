"""Helper functions used by the generated equations (one shared copy, so the
code generator sees each helper once)."""
from compyle.api import declare


def vh_mix(x=0.0, y=0.0):
    return x*y + 0.5*x - 0.25*y


def vh_norm2(a=[0.0, 0.0], n=3):
    i = declare('int')
    s = 0.0
    for i in range(n):
        s += a[i]*a[i]
    return s
