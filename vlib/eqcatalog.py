"""Discovery and instantiation of the equation / stepper / integrator classes
shipped under pysph.sph (used by C02, C04, C09, C12, C20)."""
import importlib
import inspect
import pkgutil

RECIPE = dict(
    dim=2, rho0=1.0, c0=10.0, co=10.0, nu=0.01, gamma=1.4, gamma1=1.4,
    alpha=0.1, beta=0.1, alpha1=1.0, alpha2=0.1, beta1=1.0, gx=0.0, gy=0.0,
    gz=0.0, hdx=1.3, h0=0.1, p0=1.0, pb=1.0, b=1.0, k=1.0, eta=0.01,
    eps=0.01, epsilon=0.01, tensile_correction=False, n=2, delta=0.1,
    visc=0.01, mu=0.01, kn=1e4, kt=1e3, en=0.8, et=0.8, rho_ref=1.0,
    tdamp=0.0, dt_fac=0.25, cs=10.0, G=1.0, E=1.0, K=1.0, hfac=1.3,
    fx=0.0, fy=0.0, fz=0.0, gravity=0.0, omega=0.5, tolerance=1e-3,
    max_iterations=10, debug=False, m0=1.0, sigma=0.1, nu_max=0.01,
    U=1.0, V=1.0, u0=1.0, T=1.0, diff_coeff=0.1, cfl=0.3, x0=0.0,
    y0=0.0, xn=1.0, yn=0.0, zn=0.0, rhomin=0.1, rhomax=10.0, pref=1.0,
    p_ref=1.0, ki=0.1, kr=0.1, k2=0.1, edac_alpha=0.5, h=0.1,
    ar=0.1, kernel_factor=3.0, scale_k=0.05, Re=100.0, d=2,
    adaptive_h_scheme='mpm', rsolver=2, interpolation=1, monotonicity=1,
    g1=0.2, g2=0.4, niter=20, tol=1e-6, interface_zero=True, hybrid=False,
    blend_alpha=5.0, fkern=1.0, max_density_iterations=10,
    density_iteration_tolerance=1e-3, has_ghosts=False, num_points=1,
    factor1=0.5, factor2=0.5, formulation='mi1', ndes=20, kc=0.1, kd=0.1,
    ieee=True,
)


def sph_modules():
    import pysph.sph as root
    mods = []
    for m in pkgutil.walk_packages(root.__path__, 'pysph.sph.'):
        name = m.name
        if '.tests' in name or 'gpu' in name or name.endswith('_mako'):
            continue
        try:
            mods.append(importlib.import_module(name))
        except Exception:
            continue
    return mods


def subclasses_of(base):
    seen = {}
    for mod in sph_modules():
        for n, obj in vars(mod).items():
            if inspect.isclass(obj) and issubclass(obj, base) and \
                    obj is not base and obj.__module__ == mod.__name__:
                seen['%s.%s' % (obj.__module__, n)] = obj
    return dict(sorted(seen.items()))


def equation_classes():
    from pysph.sph.equation import Equation
    return subclasses_of(Equation)


def stepper_classes():
    from pysph.sph.integrator_step import IntegratorStep
    return subclasses_of(IntegratorStep)


def integrator_classes():
    from pysph.sph.integrator import Integrator
    return subclasses_of(Integrator)


def make_args(cls, overrides=None, dest='dest', sources=('src',)):
    """kwargs for cls.__init__ from its signature and the recipe table."""
    overrides = overrides or {}
    try:
        spec = inspect.getfullargspec(cls.__init__)
    except TypeError:
        return {}
    names = spec.args[1:]
    defaults = dict(zip(names[len(names) - len(spec.defaults or ()):],
                        spec.defaults or ()))
    kw = {}
    for a in names:
        if a in overrides:
            kw[a] = overrides[a]
        elif a == 'dest':
            kw[a] = dest
        elif a == 'sources':
            kw[a] = list(sources) if sources is not None else None
        elif a in defaults and defaults[a] is not None:
            kw[a] = defaults[a]
        elif a in RECIPE:
            kw[a] = RECIPE[a]
        elif a in defaults:
            kw[a] = defaults[a]
        else:
            kw[a] = 1.0
    return kw


def instantiate(cls, overrides=None, dest='dest', sources=('src',)):
    return cls(**make_args(cls, overrides, dest, sources))


HOOKS = ('initialize', 'initialize_pair', 'loop', 'loop_all', 'post_loop')
PAIR_PROPS = {'VIJ': ('u', 'v', 'w'), 'RHOIJ': ('rho',), 'RHOIJ1': ('rho',)}
GEOM_SYMS = ('HIJ', 'XIJ', 'R2IJ', 'RIJ', 'WIJ', 'WI', 'WJ', 'DWIJ', 'DWI',
             'DWJ', 'EPS', 'WDP', 'GHI', 'GHJ', 'GHIJ', 'WDASHI', 'WDASHJ',
             'WDASHIJ')


def needed_names(eq):
    """(explicit_dest, explicit_src, implicit_pair) property/constant names an
    equation needs, read off its hook signatures (the documented contract:
    d_*/s_* arguments name arrays; pair symbols imply theirs)."""
    d, s, imp = set(), set(), set()
    for h in HOOKS:
        m = getattr(eq, h, None)
        if m is None:
            continue
        for a in inspect.getfullargspec(m).args:
            if a.startswith('d_') and a != 'd_idx':
                d.add(a[2:])
            elif a.startswith('s_') and a != 's_idx':
                s.add(a[2:])
            elif a in PAIR_PROPS and h in ('loop', 'loop_all'):
                imp.update(PAIR_PROPS[a])
    return d, s, imp
